// simgen copies a Go source tree and instruments the synchronisation points
// of the listed package directories (see DESIGN.md section 3.1): a schedule
// point before every lock, channel operation and go statement, and every
// select without default rewritten so that the order in which ready cases are
// tried comes from the simulator. Exit status 2 on any error.
package main

import (
	"bytes"
	"fmt"
	"go/ast"
	"go/format"
	"go/parser"
	"go/token"
	"os"
	"path/filepath"
	"strings"
)

const rtPkg = "github.com/fullstorydev/grpchan/simrt"

var fset = token.NewFileSet()
var tmpN int

func tmp(prefix string) string { tmpN++; return fmt.Sprintf("_sim%s%d", prefix, tmpN) }

func site(n ast.Node) *ast.BasicLit {
	p := fset.Position(n.Pos())
	return &ast.BasicLit{Kind: token.STRING, Value: fmt.Sprintf("%q", fmt.Sprintf("%s:%d", filepath.Base(p.Filename), p.Line))}
}

func rt(name string) ast.Expr {
	return &ast.SelectorExpr{X: ast.NewIdent("simrt"), Sel: ast.NewIdent(name)}
}
func call(fn ast.Expr, args ...ast.Expr) *ast.CallExpr { return &ast.CallExpr{Fun: fn, Args: args} }
func stmt(e ast.Expr) ast.Stmt                          { return &ast.ExprStmt{X: e} }
func id(s string) *ast.Ident                            { return ast.NewIdent(s) }

// hasChanOp reports whether the statement itself (not nested blocks/func literals) has a channel op.
func hasChanOp(s ast.Stmt) bool {
	found := false
	ast.Inspect(s, func(n ast.Node) bool {
		switch x := n.(type) {
		case *ast.FuncLit, *ast.BlockStmt, *ast.SelectStmt:
			return false
		case *ast.SendStmt:
			found = true
		case *ast.UnaryExpr:
			if x.Op == token.ARROW {
				found = true
			}
		case *ast.CallExpr:
			if i, ok := x.Fun.(*ast.Ident); ok && i.Name == "close" && len(x.Args) == 1 {
				found = true
			}
			if se, ok := x.Fun.(*ast.SelectorExpr); ok && se.Sel.Name == "Wait" && len(x.Args) == 0 {
				found = true
			}
		}
		return true
	})
	return found
}

// mayBlock: the statement has a send, a receive or a Wait() call (close never blocks).
func mayBlock(s ast.Stmt) bool {
	found := false
	ast.Inspect(s, func(n ast.Node) bool {
		switch x := n.(type) {
		case *ast.FuncLit, *ast.BlockStmt, *ast.SelectStmt:
			return false
		case *ast.SendStmt:
			found = true
		case *ast.UnaryExpr:
			if x.Op == token.ARROW {
				found = true
			}
		case *ast.CallExpr:
			if se, ok := x.Fun.(*ast.SelectorExpr); ok && se.Sel.Name == "Wait" && len(x.Args) == 0 {
				found = true
			}
		}
		return true
	})
	return found
}

// lockCall: X.Lock() / X.RLock() as expression statement
func lockCall(s ast.Stmt) (x ast.Expr, r bool, ok bool) {
	es, isEs := s.(*ast.ExprStmt)
	if !isEs {
		return nil, false, false
	}
	c, isC := es.X.(*ast.CallExpr)
	if !isC || len(c.Args) != 0 {
		return nil, false, false
	}
	se, isS := c.Fun.(*ast.SelectorExpr)
	if !isS {
		return nil, false, false
	}
	// x.L.Lock() is a sync.Locker (the lock of a sync.Cond): no TryLock to
	// probe with; treated like any other statement
	if inner, ok := se.X.(*ast.SelectorExpr); ok && inner.Sel.Name == "L" {
		return nil, false, false
	}
	if c2, ok := se.X.(*ast.CallExpr); ok {
		_ = c2 // e.g. rw.RLocker().Lock(): a Locker as well
		return nil, false, false
	}
	switch se.Sel.Name {
	case "Lock":
		return se.X, false, true
	case "RLock":
		return se.X, true, true
	}
	return nil, false, false
}

func rewriteBlock(list []ast.Stmt) []ast.Stmt {
	var out []ast.Stmt
	for _, s := range list {
		out = append(out, rewriteStmt(s)...)
	}
	return out
}

func rewriteStmt(s ast.Stmt) []ast.Stmt {
	// recurse first into nested statements
	switch x := s.(type) {
	case *ast.BlockStmt:
		x.List = rewriteBlock(x.List)
		return []ast.Stmt{x}
	case *ast.IfStmt:
		x.Body.List = rewriteBlock(x.Body.List)
		if x.Else != nil {
			r := rewriteStmt(x.Else)
			if len(r) == 1 {
				x.Else = r[0]
			} else {
				x.Else = &ast.BlockStmt{List: r}
			}
		}
		rewriteFuncLits(x.Cond)
		if x.Init != nil {
			rewriteFuncLits(x.Init)
		}
		pre := []ast.Stmt{}
		if (x.Init != nil && hasChanOp(x.Init)) || hasChanOp(&ast.ExprStmt{X: x.Cond}) {
			pre = append(pre, stmt(call(rt("Yield"), site(x))))
		}
		return append(pre, x)
	case *ast.ForStmt:
		x.Body.List = rewriteBlock(x.Body.List)
		return []ast.Stmt{x}
	case *ast.RangeStmt:
		x.Body.List = rewriteBlock(x.Body.List)
		return []ast.Stmt{x}
	case *ast.SwitchStmt:
		for _, c := range x.Body.List {
			cc := c.(*ast.CaseClause)
			cc.Body = rewriteBlock(cc.Body)
		}
		return []ast.Stmt{x}
	case *ast.TypeSwitchStmt:
		for _, c := range x.Body.List {
			cc := c.(*ast.CaseClause)
			cc.Body = rewriteBlock(cc.Body)
		}
		return []ast.Stmt{x}
	case *ast.LabeledStmt:
		r := rewriteStmt(x.Stmt)
		if len(r) == 1 {
			x.Stmt = r[0]
		} else {
			// keep label on the last (the real) statement
			x.Stmt = r[len(r)-1]
			return append(r[:len(r)-1], x)
		}
		return []ast.Stmt{x}
	case *ast.SelectStmt:
		return rewriteSelect(x)
	case *ast.GoStmt:
		return rewriteGo(x)
	}
	rewriteFuncLits(s)
	if mx, r, ok := lockCall(s); ok {
		try, unl := "TryLock", "Unlock"
		if r {
			try, unl = "TryRLock", "RUnlock"
		}
		pre := stmt(call(rt("BeforeLock"), site(s), &ast.SelectorExpr{X: mx, Sel: id(try)}, &ast.SelectorExpr{X: mx, Sel: id(unl)}))
		return []ast.Stmt{pre, s}
	}
	if hasChanOp(s) {
		out := []ast.Stmt{stmt(call(rt("Yield"), site(s))), s}
		if mayBlock(s) {
			switch s.(type) {
			case *ast.ExprStmt, *ast.AssignStmt, *ast.SendStmt:
				// the goroutine may have been woken by another one: park again so
				// that the two never run side by side
				out = append(out, stmt(call(rt("Woken"), site(s))))
			}
		}
		return out
	}
	return []ast.Stmt{s}
}

// rewriteFuncLits instruments bodies of function literals nested in a simple statement/expression.
func rewriteFuncLits(n ast.Node) {
	ast.Inspect(n, func(m ast.Node) bool {
		if fl, ok := m.(*ast.FuncLit); ok {
			fl.Body.List = rewriteBlock(fl.Body.List)
			return false
		}
		return true
	})
}

func rewriteGo(g *ast.GoStmt) []ast.Stmt {
	st := site(g)
	if fl, ok := g.Call.Fun.(*ast.FuncLit); ok && len(g.Call.Args) == 0 {
		fl.Body.List = rewriteBlock(fl.Body.List)
		fl.Body.List = append([]ast.Stmt{
			stmt(call(rt("GoStart"), st)),
			&ast.DeferStmt{Call: call(rt("GoEnd"))},
		}, fl.Body.List...)
		return []ast.Stmt{stmt(call(rt("GoSpawn"), st)), g}
	}
	// go f(a, b) / go x.m(a, b): pre-evaluate receiver and args
	var pre []ast.Stmt
	var lhs, rhs []ast.Expr
	c := g.Call
	fun := c.Fun
	if se, ok := fun.(*ast.SelectorExpr); ok {
		if _, isPkg := se.X.(*ast.Ident); !isPkg || true {
			r := tmp("r")
			lhs = append(lhs, id(r))
			rhs = append(rhs, se.X)
			fun = &ast.SelectorExpr{X: id(r), Sel: se.Sel}
		}
	}
	var args []ast.Expr
	for _, a := range c.Args {
		t := tmp("a")
		lhs = append(lhs, id(t))
		rhs = append(rhs, a)
		args = append(args, id(t))
	}
	if len(lhs) > 0 {
		pre = append(pre, &ast.AssignStmt{Lhs: lhs, Tok: token.DEFINE, Rhs: rhs})
	}
	body := []ast.Stmt{
		stmt(call(rt("GoStart"), st)),
		&ast.DeferStmt{Call: call(rt("GoEnd"))},
		stmt(&ast.CallExpr{Fun: fun, Args: args, Ellipsis: c.Ellipsis}),
	}
	ng := &ast.GoStmt{Call: call(&ast.FuncLit{Type: &ast.FuncType{Params: &ast.FieldList{}}, Body: &ast.BlockStmt{List: body}})}
	pre = append(pre, stmt(call(rt("GoSpawn"), st)), ng)
	return []ast.Stmt{&ast.BlockStmt{List: pre}}
}

// rewriteSelect turns
//   select { case c0 <- v: B0; case x, ok := <-c1: B1; case <-c2: B2 }
// into a block that evaluates channels/values once, probes the cases one at a
// time in an order chosen by the simulator, falls back to the original blocking
// select, and then runs the chosen body.
func rewriteSelect(sel *ast.SelectStmt) []ast.Stmt {
	var clauses []*ast.CommClause
	hasDefault := false
	for _, c := range sel.Body.List {
		cc := c.(*ast.CommClause)
		cc.Body = rewriteBlock(cc.Body)
		if cc.Comm == nil {
			hasDefault = true
		}
		clauses = append(clauses, cc)
	}
	st := site(sel)
	if hasDefault || len(clauses) == 0 {
		return []ast.Stmt{stmt(call(rt("Yield"), st)), sel}
	}
	n := len(clauses)
	chosen := tmp("k")
	var pre []ast.Stmt  // evaluate channel exprs & send values
	var decl []ast.Stmt // temporaries for received values
	type info struct {
		comm   func() ast.Stmt // fresh comm statement using temporaries
		bind   ast.Stmt        // binding of user vars in the body
		silent []ast.Expr
	}
	infos := make([]info, n)
	for i, cc := range clauses {
		switch c := cc.Comm.(type) {
		case *ast.SendStmt:
			ch, v := tmp("c"), tmp("v")
			pre = append(pre, &ast.AssignStmt{Lhs: []ast.Expr{id(ch), id(v)}, Tok: token.DEFINE, Rhs: []ast.Expr{c.Chan, c.Value}})
			infos[i].comm = func() ast.Stmt { return &ast.SendStmt{Chan: id(ch), Value: id(v)} }
		case *ast.ExprStmt: // <-ch
			ue := c.X.(*ast.UnaryExpr)
			ch := tmp("c")
			pre = append(pre, &ast.AssignStmt{Lhs: []ast.Expr{id(ch)}, Tok: token.DEFINE, Rhs: []ast.Expr{ue.X}})
			infos[i].comm = func() ast.Stmt { return stmt(&ast.UnaryExpr{Op: token.ARROW, X: id(ch)}) }
		case *ast.AssignStmt: // x := <-ch ; x, ok := <-ch ; x = <-ch
			ue := c.Rhs[0].(*ast.UnaryExpr)
			ch := tmp("c")
			pre = append(pre, &ast.AssignStmt{Lhs: []ast.Expr{id(ch)}, Tok: token.DEFINE, Rhs: []ast.Expr{ue.X}})
			rv, rok := tmp("x"), tmp("ok")
			decl = append(decl, &ast.AssignStmt{Lhs: []ast.Expr{id(rv), id(rok)}, Tok: token.DEFINE, Rhs: []ast.Expr{call(rt("Tmp"), id(ch))}})
			decl = append(decl, &ast.AssignStmt{Lhs: []ast.Expr{id("_"), id("_")}, Tok: token.ASSIGN, Rhs: []ast.Expr{id(rv), id(rok)}})
			infos[i].comm = func() ast.Stmt {
				return &ast.AssignStmt{Lhs: []ast.Expr{id(rv), id(rok)}, Tok: token.ASSIGN, Rhs: []ast.Expr{&ast.UnaryExpr{Op: token.ARROW, X: id(ch)}}}
			}
			rhs := []ast.Expr{id(rv)}
			if len(c.Lhs) == 2 {
				rhs = append(rhs, id(rok))
			}
			infos[i].bind = &ast.AssignStmt{Lhs: c.Lhs, Tok: c.Tok, Rhs: rhs}
			if c.Tok == token.DEFINE {
				for _, l := range c.Lhs {
					if li, ok := l.(*ast.Ident); ok && li.Name != "_" {
						infos[i].silent = append(infos[i].silent, id(li.Name))
					}
				}
			}
		default:
			panic(fmt.Sprintf("unsupported comm clause %T", c))
		}
	}
	setK := func(i int) ast.Stmt {
		return &ast.AssignStmt{Lhs: []ast.Expr{id(chosen)}, Tok: token.ASSIGN, Rhs: []ast.Expr{&ast.BasicLit{Kind: token.INT, Value: fmt.Sprint(i)}}}
	}
	// probe loop
	var probeCases []ast.Stmt
	for i := range clauses {
		probe := &ast.SelectStmt{Body: &ast.BlockStmt{List: []ast.Stmt{
			&ast.CommClause{Comm: infos[i].comm(), Body: []ast.Stmt{setK(i)}},
			&ast.CommClause{Comm: nil},
		}}}
		probeCases = append(probeCases, &ast.CaseClause{List: []ast.Expr{&ast.BasicLit{Kind: token.INT, Value: fmt.Sprint(i)}}, Body: []ast.Stmt{probe}})
	}
	pv := tmp("p")
	loop := &ast.RangeStmt{Key: id("_"), Value: id(pv), Tok: token.DEFINE,
		X: call(rt("SelectOrder"), st, &ast.BasicLit{Kind: token.INT, Value: fmt.Sprint(n)}),
		Body: &ast.BlockStmt{List: []ast.Stmt{
			&ast.SwitchStmt{Tag: id(pv), Body: &ast.BlockStmt{List: probeCases}},
			&ast.IfStmt{Cond: &ast.BinaryExpr{X: id(chosen), Op: token.GEQ, Y: &ast.BasicLit{Kind: token.INT, Value: "0"}}, Body: &ast.BlockStmt{List: []ast.Stmt{&ast.BranchStmt{Tok: token.BREAK}}}},
		}}}
	// blocking fallback
	var blkCases []ast.Stmt
	for i := range clauses {
		blkCases = append(blkCases, &ast.CommClause{Comm: infos[i].comm(), Body: []ast.Stmt{setK(i)}})
	}
	fallback := &ast.IfStmt{Cond: &ast.BinaryExpr{X: id(chosen), Op: token.LSS, Y: &ast.BasicLit{Kind: token.INT, Value: "0"}},
		Body: &ast.BlockStmt{List: []ast.Stmt{
			stmt(call(rt("SelectBlock"), st)),
			&ast.SelectStmt{Body: &ast.BlockStmt{List: blkCases}},
			stmt(call(rt("Woken"), st)),
		}}}
	// body switch
	var bodyCases []ast.Stmt
	for i, cc := range clauses {
		var body []ast.Stmt
		if infos[i].bind != nil {
			body = append(body, infos[i].bind)
			for _, v := range infos[i].silent {
				body = append(body, &ast.AssignStmt{Lhs: []ast.Expr{id("_")}, Tok: token.ASSIGN, Rhs: []ast.Expr{v}})
			}
		}
		body = append(body, cc.Body...)
		bodyCases = append(bodyCases, &ast.CaseClause{List: []ast.Expr{&ast.BasicLit{Kind: token.INT, Value: fmt.Sprint(i)}}, Body: body})
	}
	bodyCases = append(bodyCases, &ast.CaseClause{List: nil, Body: []ast.Stmt{stmt(call(id("panic"), &ast.BasicLit{Kind: token.STRING, Value: `"simrt: unreachable select case"`}))}})
	sw := &ast.SwitchStmt{Tag: id(chosen), Body: &ast.BlockStmt{List: bodyCases}}
	var list []ast.Stmt
	list = append(list, pre...)
	list = append(list, decl...)
	list = append(list, &ast.AssignStmt{Lhs: []ast.Expr{id(chosen)}, Tok: token.DEFINE, Rhs: []ast.Expr{&ast.UnaryExpr{Op: token.SUB, X: &ast.BasicLit{Kind: token.INT, Value: "1"}}}})
	list = append(list, loop, fallback, stmt(call(rt("SelectDone"), st, id(chosen))), sw)
	return []ast.Stmt{&ast.BlockStmt{List: list}}
}

func processFile(src, dst string) error {
	f, err := parser.ParseFile(fset, src, nil, parser.ParseComments)
	if err != nil {
		return err
	}
	// strip comments inside function bodies to avoid misplacement: keep only doc/package comments
	f.Comments = nil
	for _, d := range f.Decls {
		if fd, ok := d.(*ast.FuncDecl); ok && fd.Body != nil {
			fd.Body.List = rewriteBlock(fd.Body.List)
		}
	}
	// add import
	f.Decls = append([]ast.Decl{&ast.GenDecl{Tok: token.IMPORT, Specs: []ast.Spec{
		&ast.ImportSpec{Name: id("simrt"), Path: &ast.BasicLit{Kind: token.STRING, Value: fmt.Sprintf("%q", rtPkg)}},
	}}}, f.Decls...)
	var buf bytes.Buffer
	if err := format.Node(&buf, token.NewFileSet(), f); err != nil {
		return err
	}
	out := buf.String()
	if !strings.Contains(out, "simrt.") {
		// unused import; copy original
		b, _ := os.ReadFile(src)
		return os.WriteFile(dst, b, 0o644)
	}
	return os.WriteFile(dst, []byte(out), 0o644)
}

func main() {
	args := os.Args[1:]
	withTests := false
	if len(args) > 0 && args[0] == "-tests" {
		withTests = true
		args = args[1:]
	}
	if len(args) < 3 {
		fmt.Fprintln(os.Stderr, "usage: simgen [-tests] <src> <dst> <pkgdir>...")
		os.Exit(2)
	}
	src, dst := args[0], args[1]
	instrument := map[string]bool{}
	for _, d := range args[2:] {
		instrument[filepath.Clean(d)] = true
	}
	err := filepath.Walk(src, func(p string, fi os.FileInfo, err error) error {
		if err != nil {
			return err
		}
		rel, _ := filepath.Rel(src, p)
		if fi.IsDir() {
			if fi.Name() == ".git" {
				return filepath.SkipDir
			}
			return os.MkdirAll(filepath.Join(dst, rel), 0o755)
		}
		out := filepath.Join(dst, rel)
		dir := filepath.Dir(rel)
		if instrument[dir] && strings.HasSuffix(p, ".go") && !strings.HasSuffix(p, "_test.go") && !strings.HasSuffix(p, ".pb.go") {
			if err := processFile(p, out); err != nil {
				return fmt.Errorf("%s: %w", p, err)
			}
			return nil
		}
		if strings.HasSuffix(p, "_test.go") && !withTests {
			return nil
		}
		b, err := os.ReadFile(p)
		if err != nil {
			return err
		}
		return os.WriteFile(out, b, 0o644)
	})
	if err != nil {
		fmt.Fprintln(os.Stderr, err)
		os.Exit(2)
	}
}
