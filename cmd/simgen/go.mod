module simgen

go 1.21
