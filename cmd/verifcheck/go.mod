module verifcheck

go 1.21
