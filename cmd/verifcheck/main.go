// verifcheck drives one property check: it instruments /repo's current
// working tree into a scratch directory, builds the simulator against it,
// fans out single-threaded simulator processes over disjoint seed ranges,
// gathers their results, minimises and replay-verifies any violation, writes
// the evidence file and sets the exit status:
//
//	0  the property held on everything explored (known findings are listed)
//	1  a reproduced violation that is not a known finding (VIOLATION line)
//	2  build, instrumentation, worker or replay trouble - never a violation
package main

import (
	"bytes"
	"crypto/sha256"
	"encoding/hex"
	"encoding/json"
	"fmt"
	"os"
	"os/exec"
	"path/filepath"
	"sort"
	"strconv"
	"strings"
	"sync"
	"time"
)

var verifDir = func() string {
	if v := os.Getenv("VERIF_DIR"); v != "" {
		return v
	}
	return "/verif"
}()

// repoDir is the tree under test: /repo unless VERIF_REPO names another
// checkout (used to try a changed tree without touching /repo).
var repoDir = func() string {
	if v := os.Getenv("VERIF_REPO"); v != "" {
		return v
	}
	return "/repo"
}()

// evidenceDir receives evidence/<id>.json and replays/: /verif/evidence unless
// VERIF_EVIDENCE_DIR redirects it (trial runs against changed trees).
var evidenceDir = func() string {
	if v := os.Getenv("VERIF_EVIDENCE_DIR"); v != "" {
		return v
	}
	return filepath.Join(verifDir, "evidence")
}()

type profSpec struct {
	Profile string
	Share   float64 // share of the search budget
}

type propSpec struct {
	Profiles []profSpec
	Level    string
	Rule     string
	QuickS   float64 // seconds of search (per worker) in the quick tier
	ThorS    float64
}

var coreRule = "one evaluation = one simulated run of a generated program (1-3 concurrent RPCs, scripts for client and handler, fault plan) under one seeded schedule; a run is non-trivial when the property's relevance probe fired in it (see probes); distinct = distinct hash of program structure x order of all operation invocations/returns x fault positions"

var props = map[string]propSpec{
	"C01": {Profiles: []profSpec{{"c01", 0.55}, {"c01f", 0.25}, {"wcut", 0.2}}, Level: "exploration", Rule: coreRule},
	"C02": {Profiles: []profSpec{{"c02", 0.45}, {"c02f", 0.25}, {"wcut", 0.15}, {"c04e", 0.15}}, Level: "exploration", Rule: coreRule},
	"C03": {Profiles: []profSpec{{"c03", 0.75}, {"c04e", 0.25}}, Level: "exploration", Rule: coreRule},
	"C04": {Profiles: []profSpec{{"c04", 0.65}, {"c04e", 0.35}, {"c04gc", 0.01}}, Level: "exploration", Rule: coreRule},
	"C05": {Profiles: []profSpec{{"c05", 0.62}, {"wcut", 0.14}, {"c04e", 0.14}, {"c07r", 0.1}}, Level: "exploration", Rule: coreRule},
	"C06": {Profiles: []profSpec{{"c06", 0.85}, {"c04e", 0.15}}, Level: "exploration", Rule: coreRule},
	"C07": {Profiles: []profSpec{{"c07", 0.55}, {"wcut", 0.3}, {"c11", 0.15}}, Level: "fault_enumeration", Rule: coreRule},
	"C08": {Profiles: []profSpec{{"c08", 0.75}, {"c11", 0.25}}, Level: "exploration", Rule: coreRule},
	"C09": {Profiles: []profSpec{{"c09", 1}}, Level: "exploration", Rule: coreRule},
	"C10": {Profiles: []profSpec{{"c10", 1}}, Level: "exploration", Rule: coreRule},
	"C11": {Profiles: []profSpec{{"c11", 1}}, Level: "exploration", Rule: coreRule},
	"C12": {Profiles: []profSpec{{"c12", 1}}, Level: "exploration", Rule: coreRule},
	"C13": {Profiles: []profSpec{{"c13", 1}}, Level: "exploration", Rule: coreRule},
	"C14": {Profiles: []profSpec{{"c14", 1}}, Level: "exploration", Rule: coreRule},
	"C16": {Profiles: []profSpec{{"c16", 1}}, Level: "exploration", Rule: coreRule},
	"C17": {Profiles: []profSpec{{"c17", 1}}, Level: "exploration", Rule: coreRule},
	"C20": {Profiles: []profSpec{{"c20", 1}}, Level: "exploration", Rule: coreRule},
}

type violation struct {
	Prop string `json:"prop"`
	Sig  string `json:"sig"`
	Text string `json:"text"`
	RPC  int    `json:"rpc"`
}

type result struct {
	Seed     int64           `json:"seed"`
	Program  json.RawMessage `json:"program"`
	Tape     []int           `json:"tape"`
	TapeSeed int64           `json:"tape_seed"`
	TapeFork int64           `json:"tape_fork"`
	Viols    []violation     `json:"violations"`
	Stats    json.RawMessage `json:"stats"`
	HistText []string        `json:"history"`
	Shape    string          `json:"shape"`
	Fatal    string          `json:"fatal"`
}

type workerOut struct {
	Profile   string         `json:"profile"`
	Runs      int            `json:"runs"`
	WallS     float64        `json:"wall_s"`
	Steps     int64          `json:"steps"`
	VirtualNs int64          `json:"virtual_ns"`
	Faults    map[string]int `json:"faults"`
	Probes    map[string]int `json:"probes"`
	ShapeList []string       `json:"shapes"`
	NonTriv   int            `json:"nontrivial_runs"`
	NTShapes  []string       `json:"nontrivial_shapes"`
	Capped    int            `json:"hit_step_cap"`
	Fatal     []string       `json:"fatal"`
	Failures  []result       `json:"failures"`
	Notes     map[string]int `json:"notes"`
	Samples   []result       `json:"samples"`
	Extra     map[string]any `json:"extra"`
}

type finding struct {
	Property string `json:"property"`
	Pattern  string `json:"pattern"`
	What     string `json:"what"`
}

type knownFile struct {
	Findings []finding `json:"findings"`
	Fixed    []string  `json:"fixed"`
}

func fatal(code int, f string, a ...any) {
	fmt.Fprintf(os.Stderr, "verifcheck: "+f+"\n", a...)
	os.Exit(code)
}

// wildcard match with '*' only
func match(pat, s string) bool {
	parts := strings.Split(pat, "*")
	if len(parts) == 1 {
		return pat == s
	}
	if !strings.HasPrefix(s, parts[0]) {
		return false
	}
	s = s[len(parts[0]):]
	for i := 1; i < len(parts)-1; i++ {
		j := strings.Index(s, parts[i])
		if j < 0 {
			return false
		}
		s = s[j+len(parts[i]):]
	}
	return strings.HasSuffix(s, parts[len(parts)-1])
}

func goEnv() []string {
	env := os.Environ()
	env = append(env, "GOFLAGS=-mod=mod", "GOPROXY=off", "GOSUMDB=off", "GOTOOLCHAIN=local")
	return env
}

func treeHash() string {
	h := sha256.New()
	filepath.Walk(repoDir, func(p string, fi os.FileInfo, err error) error {
		if err != nil {
			return nil
		}
		if fi.IsDir() {
			if fi.Name() == ".git" {
				return filepath.SkipDir
			}
			return nil
		}
		if strings.HasSuffix(p, ".go") || strings.HasSuffix(p, "go.mod") {
			b, _ := os.ReadFile(p)
			rel, _ := filepath.Rel(repoDir, p)
			fmt.Fprintf(h, "/repo/%s %d\n", rel, len(b))
			h.Write(b)
		}
		return nil
	})
	return hex.EncodeToString(h.Sum(nil)[:8])
}

func build(scratch string) {
	cmd := exec.Command(filepath.Join(verifDir, "build.sh"), scratch)
	cmd.Env = append(goEnv(), "REPO="+repoDir)
	var out bytes.Buffer
	cmd.Stdout, cmd.Stderr = &out, &out
	if err := cmd.Run(); err != nil {
		fatal(2, "cannot decide: instrumenting or building /repo's working tree failed: %v\n%s", err, out.String())
	}
}

func workerEnv() []string {
	env := goEnv()
	env = append(env, "GOMAXPROCS=1", "GODEBUG=asyncpreemptoff=1")
	return env
}

func runWorker(scratch string, args []string, outFile string) (*workerOut, string, error) {
	full := append([]string{"-test.run", "^TestWorker$", "-test.timeout", "6h"}, args...)
	if outFile != "" {
		full = append(full, "-out", outFile)
	}
	cmd := exec.Command(filepath.Join(scratch, "sim.test"), full...)
	cmd.Env = workerEnv()
	cmd.Dir = scratch
	var out bytes.Buffer
	cmd.Stdout, cmd.Stderr = &out, &out
	err := cmd.Run()
	if outFile == "" {
		return nil, out.String(), err
	}
	if err != nil {
		return nil, out.String(), err
	}
	b, rerr := os.ReadFile(outFile)
	if rerr != nil {
		return nil, out.String(), rerr
	}
	var wo workerOut
	if jerr := json.Unmarshal(b, &wo); jerr != nil {
		return nil, out.String(), jerr
	}
	return &wo, out.String(), nil
}

func main() {
	if len(os.Args) < 3 {
		fatal(2, "usage: verifcheck <property> quick|thorough | verifcheck <property> --replay <file>")
	}
	prop := os.Args[1]
	spec, ok := props[prop]
	if !ok {
		fatal(2, "unknown or not-applicable property %s", prop)
	}
	tmp := os.Getenv("TMPDIR")
	if tmp == "" {
		tmp = "/tmp"
	}
	scratch, err := os.MkdirTemp(tmp, "verif-"+prop+"-")
	if err != nil {
		fatal(2, "mkdtemp: %v", err)
	}
	code := 2
	defer func() {
		os.RemoveAll(scratch)
		os.Exit(code)
	}()
	if os.Args[2] == "--replay" {
		if len(os.Args) < 4 {
			fatal(2, "--replay needs a file")
		}
		build(scratch)
		rp := os.Args[3]
		if abs, err := filepath.Abs(rp); err == nil {
			rp = abs
		}
		_, out, _ := runWorker(scratch, []string{"-replay", rp, "-trace"}, "")
		fmt.Print(out)
		switch {
		case strings.Contains(out, "\nREPRODUCED ") || strings.HasPrefix(out, "REPRODUCED "):
			fmt.Printf("VIOLATION property=%s replay=%s\n", prop, os.Args[3])
			code = 1
		case strings.Contains(out, "NOT-REPRODUCED "):
			code = 0
		default:
			code = 2
		}
		return
	}
	tier := os.Args[2]
	if env := os.Getenv("VERIF_TIER"); env != "" && tier == "" {
		tier = env
	}
	if tier != "quick" && tier != "thorough" {
		fatal(2, "tier must be quick or thorough")
	}
	seed := int64(1)
	if v := os.Getenv("VERIF_SEED"); v != "" {
		if n, err := strconv.ParseInt(v, 10, 64); err == nil {
			seed = n
		}
	}
	code = check(prop, spec, tier, seed, scratch)
}

func check(prop string, spec propSpec, tier string, seed int64, scratch string) int {
	start := time.Now()
	th := treeHash()
	fmt.Printf("verifcheck property=%s tier=%s VERIF_SEED=%d tree=%s\n", prop, tier, seed, th)
	build(scratch)
	buildS := time.Since(start).Seconds()
	budget := 22.0
	if spec.QuickS > 0 {
		budget = spec.QuickS
	}
	if tier == "thorough" {
		budget = 600
		if spec.ThorS > 0 {
			budget = spec.ThorS
		}
	}
	if v := os.Getenv("VERIF_BUDGET_S"); v != "" {
		if f, err := strconv.ParseFloat(v, 64); err == nil {
			budget = f
		}
	}
	nw := 16
	if v := os.Getenv("VERIF_WORKERS"); v != "" {
		if n, err := strconv.Atoi(v); err == nil && n > 0 {
			nw = n
		}
	}
	// assign workers to profiles by share
	type job struct {
		profile string
		idx     int
		n       int
	}
	var jobs []job
	for _, ps := range spec.Profiles {
		n := int(float64(nw)*ps.Share + 0.5)
		if n < 1 {
			n = 1
		}
		for i := 0; i < n; i++ {
			jobs = append(jobs, job{ps.Profile, i, n})
		}
	}
	outs := make([]*workerOut, len(jobs))
	logs := make([]string, len(jobs))
	errs := make([]error, len(jobs))
	var wg sync.WaitGroup
	sem := make(chan struct{}, nw)
	for i, j := range jobs {
		wg.Add(1)
		go func(i int, j job) {
			defer wg.Done()
			sem <- struct{}{}
			defer func() { <-sem }()
			base := seed*1_000_000_007 + int64(i)*50_000_000
			args := []string{"-profile", j.profile, "-prop", prop, "-seed", fmt.Sprint(base), "-runs", "100000000", "-budget", fmt.Sprintf("%.1fs", budget), "-tier", tier, "-widx", fmt.Sprint(j.idx), "-wn", fmt.Sprint(j.n)}
			outs[i], logs[i], errs[i] = runWorker(scratch, args, filepath.Join(scratch, fmt.Sprintf("w%d.json", i)))
		}(i, j)
	}
	wg.Wait()
	for i, e := range errs {
		if e != nil {
			fmt.Fprintf(os.Stderr, "worker %d (%s) failed: %v\n%s\n", i, jobs[i].profile, e, tail(logs[i], 6000))
			fmt.Println("cannot decide: a simulator process crashed (harness trouble or a fatal runtime error); see stderr")
			return 2
		}
	}
	// aggregate
	agg := &workerOut{Faults: map[string]int{}, Probes: map[string]int{}, Notes: map[string]int{}, Extra: map[string]any{}}
	shapes := map[string]bool{}
	ntShapes := map[string]bool{}
	perProfile := map[string]int{}
	var fatals []string
	var failures []result
	var samples []result
	for i, o := range outs {
		agg.Runs += o.Runs
		perProfile[jobs[i].profile] += o.Runs
		agg.Steps += o.Steps
		agg.VirtualNs += o.VirtualNs
		agg.NonTriv += o.NonTriv
		agg.Capped += o.Capped
		for k, v := range o.Faults {
			agg.Faults[k] += v
		}
		for k, v := range o.Probes {
			agg.Probes[k] += v
		}
		for k, v := range o.Notes {
			agg.Notes[k] += v
		}
		for _, s := range o.ShapeList {
			shapes[s] = true
		}
		for _, s := range o.NTShapes {
			ntShapes[s] = true
		}
		for k, v := range o.Extra {
			if strings.HasSuffix(k, "_this_worker") {
				// per-worker counts are summed over the workers
				if f, ok := v.(float64); ok {
					tk := strings.TrimSuffix(k, "_this_worker") + "_all_workers"
					prev, _ := agg.Extra[tk].(float64)
					agg.Extra[tk] = prev + f
				}
				continue
			}
			agg.Extra[k] = v
		}
		fatals = append(fatals, o.Fatal...)
		failures = append(failures, o.Failures...)
		if len(samples) < 3 {
			samples = append(samples, o.Samples...)
		}
	}
	if len(fatals) > 0 {
		fmt.Fprintf(os.Stderr, "harness trouble in %d run(s); first: %s\n", len(fatals), fatals[0])
		fmt.Println("cannot decide: harness trouble inside a run; see stderr")
		return 2
	}
	searchS := time.Since(start).Seconds() - buildS

	// known findings
	var known knownFile
	if b, err := os.ReadFile(filepath.Join(verifDir, "known_findings.json")); err == nil {
		if err := json.Unmarshal(b, &known); err != nil {
			fatal(2, "known_findings.json: %v", err)
		}
	}
	isKnown := func(sig string) *finding {
		for i := range known.Findings {
			f := &known.Findings[i]
			if f.Property == prop && match(f.Pattern, sig) {
				return f
			}
		}
		return nil
	}
	// group failures by signature
	type group struct {
		sig   string
		first *result
		viol  violation
		n     int
		alts  []*result // further failing runs with the same signature
	}
	groups := map[string]*group{}
	for fi := range failures {
		f := &failures[fi]
		seen := map[string]bool{}
		for _, v := range f.Viols {
			if v.Prop != prop || seen[v.Sig] {
				continue
			}
			seen[v.Sig] = true
			g := groups[v.Sig]
			if g == nil {
				g = &group{sig: v.Sig, first: f, viol: v}
				groups[v.Sig] = g
			} else if len(g.alts) < 6 {
				g.alts = append(g.alts, f)
			}
			g.n++
		}
	}
	var sigs []string
	for s := range groups {
		sigs = append(sigs, s)
	}
	sort.Strings(sigs)
	knownSeen := map[string]int{}
	var unknown []*group
	for _, s := range sigs {
		if f := isKnown(s); f != nil {
			knownSeen[f.Pattern] += groups[s].n
		} else {
			unknown = append(unknown, groups[s])
		}
	}
	for _, f := range known.Findings {
		if f.Property == prop && knownSeen[f.Pattern] > 0 {
			fmt.Printf("KNOWN-FINDING: property=%s %s [%s] (seen in %d runs)\n", prop, f.What, f.Pattern, knownSeen[f.Pattern])
		}
	}
	// minimise + verify unknown ones
	nviol := 0
	exit := 0
	nonReplayable := 0
	os.MkdirAll(filepath.Join(evidenceDir, "replays"), 0o755)
	for gi, g := range unknown {
		if nviol >= 3 || gi >= 10 {
			fmt.Printf("... %d further distinct violation signatures not minimised\n", len(unknown)-gi)
			break
		}
		cands := append([]*result{g.first}, g.alts...)
		var final string
		reproduced := false
		var lastOut string
		for ci, cand := range cands {
			rf := map[string]any{"property": prop, "signature": g.sig, "violation": g.viol.Text, "seed": cand.Seed, "program": cand.Program, "tape": cand.Tape, "tape_seed": cand.TapeSeed, "tape_fork": cand.TapeFork, "history": cand.HistText, "tree_hash": th}
			b, _ := json.MarshalIndent(rf, "", " ")
			raw := filepath.Join(scratch, fmt.Sprintf("raw%d_%d.json", gi, ci))
			os.WriteFile(raw, b, 0o644)
			name := fmt.Sprintf("%s-%s-%d.json", prop, sanitizeName(g.sig), cand.Seed)
			final = filepath.Join(evidenceDir, "replays", name)
			// does it reproduce at all in a fresh process? (a run may have
			// depended on state an earlier run left behind in its worker process)
			_, rout, _ := runWorker(scratch, []string{"-replay", raw}, "")
			lastOut = rout
			if !strings.Contains(rout, "REPRODUCED property="+prop) || strings.Contains(rout, "NOT-REPRODUCED") {
				continue
			}
			if strings.HasPrefix(g.sig, "C05|hang|") {
				// a run that never ends cannot be minimised by re-running variants
				os.WriteFile(final, b, 0o644)
				g.first = cand
				reproduced = true
				break
			}
			sb := "30s"
			if tier == "thorough" {
				sb = "120s"
			}
			_, sout, serr := runWorker(scratch, []string{"-shrink", raw, "-shrinkout", final, "-shrinkbudget", sb}, "")
			if serr != nil {
				fmt.Fprintf(os.Stderr, "minimiser failed: %v\n%s\n", serr, tail(sout, 3000))
				os.WriteFile(final, b, 0o644)
			}
			for _, l := range strings.Split(sout, "\n") {
				if strings.HasPrefix(l, "shrink:") {
					fmt.Println(l)
				}
			}
			// replay the minimised file in a fresh process
			_, rout, _ = runWorker(scratch, []string{"-replay", final}, "")
			if !strings.Contains(rout, "REPRODUCED property="+prop) || strings.Contains(rout, "NOT-REPRODUCED") {
				// fall back to the unminimised one (which did reproduce)
				os.WriteFile(final, b, 0o644)
			}
			g.first = cand
			reproduced = true
			break
		}
		if !reproduced {
			fmt.Fprintf(os.Stderr, "non-replayable violation %s (%d runs tried, first seed %d):\n%s\n", g.sig, len(cands), g.first.Seed, tail(lastOut, 3000))
			nonReplayable++
			continue
		}
		nviol++
		exit = 1
		fmt.Printf("violation: %s\n  %s\n  seen in %d runs; first seed %d\n", g.sig, g.viol.Text, g.n, g.first.Seed)
		fmt.Printf("VIOLATION property=%s replay=%s\n", prop, final)
	}
	wall := time.Since(start).Seconds()
	// evidence
	distinct := len(ntShapes)
	var sampleOut []any
	for _, s := range samples {
		sampleOut = append(sampleOut, map[string]any{"seed": s.Seed, "program": s.Program, "history": s.HistText, "shape": s.Shape})
		if len(sampleOut) >= 2 {
			break
		}
	}
	if len(sampleOut) == 0 {
		sampleOut = append(sampleOut, "no sample recorded")
	}
	cov := map[string]any{
		"evaluations":          agg.Runs,
		"distinct_nontrivial":  distinct,
		"rule":                 spec.Rule,
		"samples":              sampleOut,
		"nontrivial_runs":      agg.NonTriv,
		"distinct_shapes_all":  len(shapes),
		"scheduler_steps":      agg.Steps,
		"runs_per_hour":        int(float64(agg.Runs) / searchS * 3600),
		"seeds_per_hour":       int(float64(agg.Runs) / searchS * 3600),
		"interleaving_measure": "distinct_shapes_all = distinct hashes of (program structure, order of all operation invocations and returns of all actors, position of context ends); distinct_nontrivial = the same restricted to runs in which the property's relevance probe fired",
		"seed_base":            seed*1_000_000_007,
		"seeds":                fmt.Sprintf("worker i explores seeds %d + i*50000000 + k for k = 0,1,2,... (%d workers)", seed*1_000_000_007, len(jobs)),
		"simulated_time_s":     float64(agg.VirtualNs) / 1e9,
		"faults_fired":         agg.Faults,
		"probes":               agg.Probes,
		"runs_per_profile":     perProfile,
		"runs_hit_step_cap":    agg.Capped,
		"known_findings_seen":  knownSeen,
		"other_property_notes": agg.Notes,
		"exhaustive":           false,
		"search_wall_s":        searchS,
		"build_wall_s":         buildS,
		"tree_hash":            th,
		"components_real":      []string{"grpchan (., inprocgrpc, httpgrpc, internal) - instrumented copy of /repo's working tree", "net/http client and server (go1.26.8)", "crypto/tls (C13)", "google.golang.org/grpc v1.57.1 status/metadata/codec (+ grpc-go transport where the profile uses the reference carrier)", "google.golang.org/protobuf"},
		"components_simulated": []string{"goroutine scheduling at grpchan's lock/channel/select/go sites (simrt)", "select choice among ready cases (simgen rewrite)", "clock (testing/synctest)", "network: simnet net.Conn/net.Listener with scheduler-owned delivery, fragmentation, cuts", "clients and handlers (scripts)", "cloner/codec/credentials/interceptor wrappers", "profile c04gc only: real goroutines and clock on an in-memory pipe network outside the synctest bubble, with forced garbage collections as the injected fault"},
	}
	for k, v := range agg.Extra {
		cov[k] = v
	}
	ev := map[string]any{
		"property_id": prop,
		"tier":        tier,
		"seed":        seed,
		"level":       spec.Level,
		"coverage":    cov,
		"assumptions": []string{
			"go compiler/runtime and testing/synctest (fake clock, quiescence) are correct",
			"the simgen source rewrite preserves semantics (self-test: repository suite passes on the instrumented copy with simulation off)",
			"goroutines inside net/http, crypto/tls and grpc-go run freely between network events: their internal interleavings are fixed (GOMAXPROCS=1), replayable, but not searched",
			"a clean batch is evidence, not proof: schedules, programs and fault placements are sampled",
		},
		"wall_s":     wall,
		"violations": nviol,
	}
	b, _ := json.MarshalIndent(ev, "", " ")
	os.MkdirAll(evidenceDir, 0o755)
	if err := os.WriteFile(filepath.Join(evidenceDir, prop+".json"), b, 0o644); err != nil {
		fatal(2, "write evidence: %v", err)
	}
	fmt.Printf("runs=%d distinct_nontrivial=%d steps=%d runs/h=%d simulated=%.1fs faults=%v wall=%.1fs (build %.1fs) violations=%d\n",
		agg.Runs, distinct, agg.Steps, int(float64(agg.Runs)/searchS*3600), float64(agg.VirtualNs)/1e9, agg.Faults, wall, buildS, nviol)
	if agg.Runs == 0 {
		fmt.Println("cannot decide: no run completed")
		return 2
	}
	if exit == 0 && nonReplayable > 0 {
		fmt.Printf("cannot decide: %d violation signature(s) did not reproduce from any of their replay files in a fresh process (state left behind by earlier runs of a worker process, or harness trouble); see stderr\n", nonReplayable)
		return 2
	}
	return exit
}

func sanitizeName(s string) string {
	var sb strings.Builder
	for _, c := range s {
		switch {
		case c >= 'a' && c <= 'z', c >= 'A' && c <= 'Z', c >= '0' && c <= '9', c == '-':
			sb.WriteRune(c)
		default:
			sb.WriteByte('_')
		}
	}
	out := sb.String()
	if len(out) > 90 {
		out = out[:90]
	}
	return out
}

func tail(s string, n int) string {
	if len(s) > n {
		return "..." + s[len(s)-n:]
	}
	return s
}
