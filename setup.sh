#!/bin/bash
# Builds the framework from files on disk only (offline).
set -e
export GOFLAGS=-mod=mod GOPROXY=off GOSUMDB=off GOTOOLCHAIN=local
V="$(cd "$(dirname "$0")" && pwd)"
cd "$V"
mkdir -p bin evidence/replays
(cd cmd/simgen && go1.26.8 build -o "$V/bin/simgen" .)
if [ -d cmd/verifcheck ] && ls cmd/verifcheck/*.go >/dev/null 2>&1; then (cd cmd/verifcheck && go1.26.8 build -o "$V/bin/verifcheck" .); fi
echo setup ok
