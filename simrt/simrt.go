// Package simrt is the runtime half of the deterministic-simulation
// instrumentation. It is copied into a scratch copy of the repository as
// github.com/fullstorydev/grpchan/simrt; the instrumented library sources call
// into it at every lock, channel operation, select and go statement.
//
// With Current == nil every entry point is a no-op (SelectOrder returns nil so
// the original blocking select runs), i.e. the instrumented code behaves like
// the original.
package simrt

import (
	"fmt"
	"runtime"
	"sort"
	"strings"
	"sync"
)

type entry struct {
	actor  *Actor
	site   string
	wake   chan struct{}
	try    func() bool // non-nil: waiting for a mutex
	unlock func()
}

// Actor is one goroutine known to the kernel.
type Actor struct {
	ID      string
	Name    string // optional label set by the harness
	seq     int    // creation order: stable sort key
	kids    int
	Blocked string // site of the blocking library select it is in, "" if none
	Lib     bool   // spawned by a `go` statement inside the library
	adopted bool
}

// Kernel parks goroutines and releases them one at a time.
type Kernel struct {
	mu      sync.Mutex
	parked  []*entry
	byGoid  map[uint64]*Actor
	spawnQ  map[string][]*Actor
	nActors int
	// Choose draws a value in [0,n) from the schedule tape. Called only from
	// the goroutine the scheduler has just released.
	Choose func(n int, what string) int
	// Log receives kernel events; it must not draw choices or read clocks.
	Log func(string)
	// LiveLib counts library goroutines (spawned by instrumented go
	// statements) that have started and not ended.
	LiveLib int
	// Panics collects panics that escaped a library goroutine.
	Panics []string
	// Parks counts park operations (reach measure).
	Parks int
	root  uint64 // goroutine id of the scheduler
}

// Current is the active kernel, nil when simulation is off.
var Current *Kernel

// NewKernel must be called by the scheduler's own goroutine: that goroutine
// never parks (it is the one that releases the others), so instrumented code
// it happens to run - registering services, building channels - proceeds
// without schedule points.
func NewKernel() *Kernel {
	return &Kernel{byGoid: map[uint64]*Actor{}, spawnQ: map[string][]*Actor{}, root: goid()}
}

func goid() uint64 {
	var buf [64]byte
	n := runtime.Stack(buf[:], false)
	var id uint64
	for _, c := range buf[len("goroutine "):n] {
		if c < '0' || c > '9' {
			break
		}
		id = id*10 + uint64(c-'0')
	}
	return id
}

func (k *Kernel) selfLocked(g uint64) *Actor {
	a := k.byGoid[g]
	if a == nil {
		k.nActors++
		a = &Actor{ID: fmt.Sprintf("x%d", k.nActors), seq: k.nActors}
		k.byGoid[g] = a
	}
	return a
}

func (k *Kernel) self() *Actor {
	g := goid()
	k.mu.Lock()
	defer k.mu.Unlock()
	return k.selfLocked(g)
}

// Self returns the calling goroutine's actor id.
func Self() string {
	k := Current
	if k == nil {
		return ""
	}
	return k.self().ID
}

// SetName labels the calling goroutine (for traces only).
func SetName(name string) {
	k := Current
	if k == nil {
		return
	}
	a := k.self()
	k.mu.Lock()
	a.Name = name
	k.mu.Unlock()
}

func (k *Kernel) logf(f string, a ...any) {
	if k.Log != nil {
		k.Log(fmt.Sprintf(f, a...))
	}
}

func (k *Kernel) park(site string, try func() bool, unlock func()) {
	if goid() == k.root {
		return
	}
	a := k.self()
	e := &entry{actor: a, site: site, wake: make(chan struct{}), try: try, unlock: unlock}
	k.mu.Lock()
	k.parked = append(k.parked, e)
	k.Parks++
	k.mu.Unlock()
	<-e.wake
}

// Ref describes one releasable parked goroutine.
type Ref struct {
	Actor string
	Name  string
	Site  string
	Lib   bool
	e     *entry
}

// Runnable returns the parked entries that may be released now, in stable
// (creation) order. Must be called only when everything is quiescent.
func (k *Kernel) Runnable() []Ref {
	k.mu.Lock()
	defer k.mu.Unlock()
	sort.SliceStable(k.parked, func(i, j int) bool { return k.parked[i].actor.seq < k.parked[j].actor.seq })
	var out []Ref
	for _, e := range k.parked {
		if e.try != nil {
			if !e.try() {
				continue
			}
			e.unlock()
		}
		out = append(out, Ref{Actor: e.actor.ID, Name: e.actor.Name, Site: e.site, Lib: e.actor.Lib, e: e})
	}
	return out
}

// ParkedOnMutex lists goroutines parked waiting for a mutex that is not free.
func (k *Kernel) ParkedOnMutex() []string {
	k.mu.Lock()
	defer k.mu.Unlock()
	var out []string
	for _, e := range k.parked {
		if e.try != nil {
			if e.try() {
				e.unlock()
				continue
			}
			out = append(out, e.actor.ID+"@"+e.site)
		}
	}
	return out
}

// NumParked returns the number of parked goroutines (runnable or not).
func (k *Kernel) NumParked() int {
	k.mu.Lock()
	defer k.mu.Unlock()
	return len(k.parked)
}

// Release wakes exactly the given entry.
func (k *Kernel) Release(r Ref) {
	k.mu.Lock()
	for j, p := range k.parked {
		if p == r.e {
			k.parked = append(k.parked[:j], k.parked[j+1:]...)
			break
		}
	}
	k.mu.Unlock()
	r.e.wake <- struct{}{}
}

// BlockedInLibrary lists actors currently inside a blocking library select.
func (k *Kernel) BlockedInLibrary() map[string]string {
	k.mu.Lock()
	defer k.mu.Unlock()
	out := map[string]string{}
	for _, a := range k.byGoid {
		if a.Blocked != "" {
			out[a.ID] = a.Blocked
		}
	}
	return out
}

// Yield is a schedule point.
func Yield(site string) {
	k := Current
	if k == nil {
		return
	}
	k.park(site, nil, nil)
}

// Woken is a schedule point right after an operation that may have blocked:
// the goroutine that woke this one is still running, so this one parks until
// the scheduler picks it. Two instrumented goroutines never run side by side.
func Woken(site string) {
	k := Current
	if k == nil {
		return
	}
	k.park(site+"#woken", nil, nil)
}

// Adopt gives the calling goroutine (one the library or harness did not
// spawn, e.g. a server's per-request goroutine) a deterministic identity and
// rank instead of one that depends on the order of first arrival.
func Adopt(id string, rank int) {
	k := Current
	if k == nil {
		return
	}
	g := goid()
	k.mu.Lock()
	a := k.byGoid[g]
	if a == nil {
		a = &Actor{}
		k.byGoid[g] = a
	}
	if !a.adopted {
		a.ID, a.seq, a.adopted = id, 1_000_000+rank, true
	}
	k.mu.Unlock()
}

// BeforeLock is a schedule point in front of a mutex acquisition. It returns
// only when the mutex was observed free while the caller was the only running
// goroutine, so the Lock that follows does not block.
func BeforeLock(site string, try func() bool, unlock func()) {
	k := Current
	if k == nil {
		return
	}
	if goid() == k.root {
		return
	}
	k.park(site, nil, nil)
	for !try() {
		k.park(site+"#mutex", try, unlock)
	}
	unlock()
}

// GoSpawn is called by the parent right before a go statement.
func GoSpawn(site string) {
	k := Current
	if k == nil {
		return
	}
	p := k.self()
	k.mu.Lock()
	p.kids++
	k.nActors++
	a := &Actor{ID: fmt.Sprintf("%s.%d", p.ID, p.kids), seq: k.nActors, Lib: !strings.HasPrefix(site, "actor:")}
	k.spawnQ[site] = append(k.spawnQ[site], a)
	k.mu.Unlock()
}

// GoStart is the first statement of a spawned goroutine.
func GoStart(site string) {
	k := Current
	if k == nil {
		return
	}
	g := goid()
	k.mu.Lock()
	q := k.spawnQ[site]
	if len(q) == 0 {
		// spawned while simulation was off or by foreign code
		k.selfLocked(g)
		k.mu.Unlock()
		k.park(site+"#start", nil, nil)
		return
	}
	a := q[0]
	k.spawnQ[site] = q[1:]
	k.byGoid[g] = a
	if a.Lib {
		k.LiveLib++
	}
	k.mu.Unlock()
	k.park(site+"#start", nil, nil)
}

// GoEnd is deferred first in every spawned goroutine, hence runs last. A
// panic that reaches it would have killed the process; it is recorded and
// swallowed so the run can be reported.
func GoEnd() {
	k := Current
	if k == nil {
		return
	}
	r := recover()
	g := goid()
	k.mu.Lock()
	if a := k.byGoid[g]; a != nil {
		if a.Lib {
			k.LiveLib--
		}
		a.Blocked = ""
		if r != nil {
			buf := make([]byte, 4096)
			buf = buf[:runtime.Stack(buf, false)]
			k.Panics = append(k.Panics, fmt.Sprintf("goroutine %s panicked: %v\n%s", a.ID, r, buf))
		}
	} else if r != nil {
		k.Panics = append(k.Panics, fmt.Sprintf("goroutine panicked: %v", r))
	}
	delete(k.byGoid, g)
	k.mu.Unlock()
}

// SelectOrder is a schedule point in front of a select; it returns the order
// in which the cases are to be probed.
func SelectOrder(site string, n int) []int {
	k := Current
	if k == nil {
		return nil
	}
	k.park(site, nil, nil)
	p := make([]int, n)
	for i := range p {
		p[i] = i
	}
	if k.Choose != nil {
		for i := 0; i < n-1; i++ {
			j := i + k.Choose(n-i, "select")
			p[i], p[j] = p[j], p[i]
		}
	}
	return p
}

// SelectBlock marks the caller as blocked inside a library select: no case
// was ready when probed.
func SelectBlock(site string) {
	k := Current
	if k == nil {
		return
	}
	a := k.self()
	k.mu.Lock()
	a.Blocked = site
	k.mu.Unlock()
}

// SelectDone records which case ran.
func SelectDone(site string, chosen int) {
	k := Current
	if k == nil {
		return
	}
	a := k.self()
	k.mu.Lock()
	a.Blocked = ""
	k.mu.Unlock()
	k.logf("sel %s %s ->%d", a.ID, site, chosen)
}

// Tmp yields typed zero temporaries for a receive from c.
func Tmp[T any](c <-chan T) (T, bool) {
	var z T
	return z, false
}
