import json,collections,sys
o=json.load(open(sys.argv[1]))
print({k:o[k] for k in ['runs','wall_s','steps','nontrivial_runs','hit_step_cap','faults','probes']})
print('fatal',len(o.get('fatal',[])), (o.get('fatal') or [''])[0][:1500])
c=collections.Counter(); ex={}
for r in o.get('failures',[]):
    for v in r['violations']:
        c[v['sig']]+=1; ex.setdefault(v['sig'],(r['seed'],v['text'][:int(sys.argv[2]) if len(sys.argv)>2 else 250]))
for k,n in sorted(c.items()): print(n,k,ex[k])
print('notes',o.get('notes'))
