#!/bin/bash
# usage: build.sh <scratchdir>  -- instruments /repo into <scratchdir>/repo and builds <scratchdir>/sim.test
set -e
export GOFLAGS=-mod=mod GOPROXY=off GOSUMDB=off GOTOOLCHAIN=local
S=$1
V=${VERIF_DIR:-/verif}
mkdir -p $S
[ -x $V/bin/simgen ] || (cd $V/cmd/simgen && go1.26.8 build -o $V/bin/simgen .)
rm -rf $S/repo $S/h
$V/bin/simgen ${REPO:-/repo} $S/repo . inprocgrpc httpgrpc internal
mkdir -p $S/repo/simrt && cp $V/simrt/simrt.go $S/repo/simrt/
mkdir -p $S/h && cp $V/harness/*.go $S/h/ && { echo "module verifsim"; echo; echo "go 1.26"; echo; echo "require github.com/fullstorydev/grpchan v0.0.0"; awk '/^require \(/{f=1;print;next} f&&/^\)/{f=0;print;next} f{print} /^require [^(]/{print}' ${REPO:-/repo}/go.mod; echo "replace github.com/fullstorydev/grpchan => $S/repo"; } > $S/h/go.mod && cp ${REPO:-/repo}/go.sum $S/h/go.sum
cd $S/h && go1.26.8 test -c -trimpath -o $S/sim.test . 
