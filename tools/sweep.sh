#!/bin/bash
# usage: tools/sweep.sh <budget_s> <seed>...   runs every check once per seed; prints one line per check
B=$1; shift
for seed in "$@"; do
  for p in C01 C02 C03 C04 C05 C06 C07 C08 C09 C10 C11 C12 C13 C14 C16 C17 C20; do
    VERIF_SEED=$seed VERIF_BUDGET_S=$B ./check $p thorough > sweep_${p}_$seed.txt 2>&1
    echo "seed=$seed $p exit=$? $(grep -E '^runs=' sweep_${p}_$seed.txt | cut -c1-70)"
    grep -E "^(VIOLATION|violation:|cannot)" sweep_${p}_$seed.txt | cut -c1-260
  done
done
