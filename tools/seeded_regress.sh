#!/bin/bash
# Re-runs every kept seeded change against the current checks (quick tier) and rewrites seeded/RESULTS.md.
# usage: tools/seeded_regress.sh [name-glob]     (VERIF_WORKERS limits the simulator processes per check)
V="$(cd "$(dirname "$0")/.." && pwd)"
cd $V
for d in seeded/${1:-*}/; do
  name=$(basename $d)
  [ -f $d/patch.diff ] || continue
  props=$(grep -oE "^check C[0-9]+ exit=1" $d/confirm.txt 2>/dev/null | awk '{print $2}' | sort -u | tr '\n' ' ')
  [ -z "$props" ] && props=$(python3 -c "import json;print(json.load(open('$d/meta.json'))['property'])")
  tools/recheck_mutant.sh $name $props 2>&1 | grep -E "check C[0-9]+ exit="
done
tools/seeded_summary.py
