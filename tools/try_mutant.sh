#!/bin/bash
# usage: try_mutant.sh <agent-worktree> <seeded-name> <prop> [more props...]
# 1. copies the agent's deliverables to /verif/seeded/<name>
# 2. confirms in a scratch worktree: patch applies, builds, suite passes, demo fails with / passes without
# 3. applies the patch to /repo, runs ./check <prop> quick for each prop, and reverts /repo
export GOFLAGS=-mod=mod GOPROXY=off GOSUMDB=off
W=$1; NAME=$2; shift 2
D=/verif/seeded/$NAME
mkdir -p $D
cp $W/_out/* $D/ 2>/dev/null
# demo file relative paths (untracked files outside _out)
DEMOS=$(git -C $W status --porcelain --untracked-files=all | awk '$1=="??"{print $2}' | grep -v '^_out/')
echo "demo files: $DEMOS"
V=/tmp/mutv-$NAME
git -C /repo worktree remove --force $V 2>/dev/null
git -C /repo worktree add -q --detach $V HEAD || exit 3
RES="$D/confirm.txt"; : > $RES
( cd $V
  if ! git apply $D/patch.diff; then echo "PATCH-DOES-NOT-APPLY" | tee -a $RES; exit 0; fi
  go build ./... 2>&1 | tail -3; 
  if go test -vet=off -count=1 ./... > /tmp/mutv-$NAME.suite 2>&1; then echo "suite-with-change: PASS" | tee -a $RES; else echo "suite-with-change: FAIL" | tee -a $RES; tail -20 /tmp/mutv-$NAME.suite; fi
  for f in $DEMOS; do mkdir -p $(dirname $f); cp $W/$f $f; done
  CMD=$(cat $D/demo_cmd.txt | grep -v '^#' | grep -v '^$' | tail -1 | sed "s#$W#$V#g")
  echo "demo cmd: $CMD" | tee -a $RES
  if timeout 600 bash -c "$CMD" > /tmp/mutv-$NAME.demo1 2>&1; then echo "demo-with-change: PASS (unexpected)" | tee -a $RES; else echo "demo-with-change: FAIL (expected)" | tee -a $RES; fi
  git apply -R $D/patch.diff
  if timeout 600 bash -c "$CMD" > /tmp/mutv-$NAME.demo2 2>&1; then echo "demo-without-change: PASS (expected)" | tee -a $RES; else echo "demo-without-change: FAIL (unexpected)" | tee -a $RES; tail -5 /tmp/mutv-$NAME.demo2; fi
)
git -C /repo worktree remove --force $V
rm -f /tmp/mutv-$NAME.*
if grep -q "PATCH-DOES-NOT-APPLY" $RES; then exit 0; fi
cd /verif
git -C /repo apply $D/patch.diff || { echo "cannot apply to /repo"; exit 3; }
for P in "$@"; do
  ./check $P quick > $D/check_$P.txt 2>&1; echo "check $P exit=$?" | tee -a $RES
  grep -E "^(VIOLATION|KNOWN-FINDING|violation:|cannot decide|runs=)" $D/check_$P.txt | cut -c1-300
done
git -C /repo checkout -- .
git -C /repo status --short | head -3
