#!/bin/bash
# usage: try_mutant.sh <agent-worktree> <seeded-name> <prop> [more props...]
# 1. copies the agent's deliverables to /verif/seeded/<name>
# 2. confirms in a scratch worktree: patch applies, builds, suite passes, demo fails with / passes without
# 3. runs ./check <prop> quick for each prop against that scratch worktree with the patch applied
#    (VERIF_REPO), so /repo itself is never touched, then removes the worktree
export GOFLAGS=-mod=mod GOPROXY=off GOSUMDB=off GOTOOLCHAIN=local
W=$1; NAME=$2; shift 2
D=/verif/seeded/$NAME
mkdir -p $D
cp $W/_out/* $D/ 2>/dev/null
DEMOS=$(git -C $W status --porcelain --untracked-files=all | awk '$1=="??"{print $2}' | grep -v '^_out/')
echo "demo files: $DEMOS"
V=/tmp/mutv-$NAME
git -C /repo worktree remove --force $V 2>/dev/null
git -C /repo worktree add -q --detach $V HEAD || exit 3
RES="$D/confirm.txt"; : > $RES
( cd $V
  if ! git apply $D/patch.diff; then echo "PATCH-DOES-NOT-APPLY" | tee -a $RES; exit 0; fi
  go build ./... 2>&1 | tail -3
  if go test -vet=off -count=1 ./... > /tmp/mutv-$NAME.suite 2>&1; then echo "suite-with-change: PASS" | tee -a $RES; else echo "suite-with-change: FAIL" | tee -a $RES; tail -20 /tmp/mutv-$NAME.suite; fi
  for f in $DEMOS; do mkdir -p $(dirname $f); cp $W/$f $f; done
  CMD=$(cat $D/demo_cmd.txt | grep -v '^#' | grep -v '^$' | tail -1 | sed "s#$W#$V#g")
  echo "demo cmd: $CMD" | tee -a $RES
  if timeout 900 bash -c "$CMD" > /tmp/mutv-$NAME.demo1 2>&1; then echo "demo-with-change: PASS (unexpected)" | tee -a $RES; else echo "demo-with-change: FAIL (expected)" | tee -a $RES; fi
  git apply -R $D/patch.diff
  if timeout 900 bash -c "$CMD" > /tmp/mutv-$NAME.demo2 2>&1; then echo "demo-without-change: PASS (expected)" | tee -a $RES; else echo "demo-without-change: FAIL (unexpected)" | tee -a $RES; tail -5 /tmp/mutv-$NAME.demo2; fi
  for f in $DEMOS; do rm -f $f; done
  git apply $D/patch.diff
)
rm -f /tmp/mutv-$NAME.*
if grep -q "PATCH-DOES-NOT-APPLY" $RES; then git -C /repo worktree remove --force $V; exit 0; fi
cd /verif
for P in "$@"; do
  VERIF_REPO=$V VERIF_EVIDENCE_DIR=/tmp/mutv-$NAME-ev ./check $P quick > $D/check_$P.txt 2>&1; echo "check $P exit=$?" | tee -a $RES
  grep -E "^(VIOLATION|KNOWN-FINDING|violation:|cannot decide|runs=)" $D/check_$P.txt | cut -c1-300
done
rm -rf /tmp/mutv-$NAME-ev
git -C /repo worktree remove --force $V
