#!/bin/bash
# Sensitivity of the checks to the defects repaired in /repo: for each "fix:" commit given as
# <commit>:<prop>[,<prop>...] the commit is reverted in a scratch worktree of /repo's HEAD and the
# named checks are run against it (quick tier unless TIER is set); each must exit 1.
# usage: tools/revert_check.sh <commit>:<props> ...
export GOFLAGS=-mod=mod GOPROXY=off GOSUMDB=off GOTOOLCHAIN=local
cd /verif
for x in "$@"; do
  c=${x%%:*}; props=${x#*:}
  W=/tmp/mutv-$c
  git -C /repo worktree remove --force $W 2>/dev/null
  git -C /repo worktree add -q --detach $W HEAD || exit 3
  if ! git -C $W revert -n $c >/dev/null 2>&1; then echo "$c REVERT-CONFLICT"; git -C /repo worktree remove --force $W; continue; fi
  (cd $W && go build ./... ) || { echo "$c does not build when reverted"; git -C /repo worktree remove --force $W; continue; }
  for P in $(echo $props | tr ',' ' '); do
    VERIF_REPO=$W VERIF_EVIDENCE_DIR=/tmp/mutv-$c-ev ./check $P ${TIER:-quick} > /tmp/mutv-$c-$P.txt 2>&1; rc=$?
    echo "revert $c check $P exit=$rc $(grep -E '^violation:' /tmp/mutv-$c-$P.txt | head -2 | cut -c1-150 | tr '\n' ' ')"
    rm -f /tmp/mutv-$c-$P.txt
  done
  rm -rf /tmp/mutv-$c-ev
  git -C /repo worktree remove --force $W
done
