#!/bin/bash
# Oracle calibration (DESIGN.md section 10.3): the core program generator is run on the reference
# transport (real grpc-go over simnet); the oracles of C01-C05, C08 are applied to what grpc-go does.
# Anything they flag is either a documented legitimate difference (filtered below, with the reason)
# or an over-strict oracle that must be corrected before it can raise a false alarm on grpchan.
# usage: tools/calibrate.sh [runs-per-process] [processes]
export GOFLAGS=-mod=mod GOPROXY=off GOSUMDB=off GOTOOLCHAIN=local
V="$(cd "$(dirname "$0")/.." && pwd)"; export VERIF_DIR="$V"
N=${1:-3000}; P=${2:-8}
S=$(mktemp -d ${TMPDIR:-/tmp}/verif-cal-XXXX); trap 'rm -rf $S' EXIT
$V/build.sh $S/b >/dev/null 2>&1 || { echo "calibrate: build failed"; exit 2; }
for prof in calg calgf; do
  for i in $(seq 1 $P); do
    ( cd $S/b && GOMAXPROCS=1 GODEBUG=asyncpreemptoff=1 ./sim.test -test.run '^TestWorker$' -profile $prof -seed $((i*1000000)) -runs $N -maxviol 100000 -out $S/${prof}_$i.json >/dev/null 2>&1 ) &
  done
  wait
done
python3 - $S <<'PY'
import json,sys,glob,collections,re
S=sys.argv[1]
c=collections.Counter(); ex={}; runs=0; filtered=collections.Counter()
def misuse(hist):
    # a client send that begins after the client's CloseSend began: usage error, grpc-go aborts the stream
    closed={}; bad=set()
    for l in hist:
        m=re.match(r'\[(\d+)\.\.(\d+)\] rpc(\d+) c\d+ (\w+)',l)
        if not m: continue
        seq,rpc,op=int(m.group(1)),m.group(3),m.group(4)
        if op=='closesend': closed.setdefault(rpc,seq)
        if op=='send' and rpc in closed and seq>closed[rpc]: bad.add(rpc)
    return bad
for f in glob.glob(S+'/cal*_*.json'):
    o=json.load(open(f)); runs+=o['runs']
    for fl in o.get('fatal') or []: c['FATAL '+fl[:80]]+=1
    for r in o.get('failures') or []:
        bad=misuse(r.get('history') or [])
        malformed=set(m.group(1) for l in (r.get('history') or []) if 'malformed grpc-status' in l for m in [re.search(r'rpc(\d+) ',l)] if m)
        for v in r['violations']:
            sig=v['sig']; t=v['text']
            if any(('rpc%s '%b) in t for b in bad): filtered['client usage error: SendMsg after CloseSend aborts a grpc-go stream']+=1; continue
            if sig.startswith(('C08|grpc|unary|success-with-zero','C01|grpc|unary|h2c-fabricated')): filtered['typed-nil unary response: grpc-go encodes it as an empty message and succeeds; grpchan (and the property) report an error']+=1; continue
            if 'status-details-differs' in sig and '\\x' in t: filtered['invalid-UTF-8 status message with details: grpc-go cannot encode grpc-status-details-bin and drops the details']+=1; continue
            mm=re.match(r'rpc(\d+) ',t)
            if 'malformed grpc-status' in t or (mm and mm.group(1) in malformed): filtered['status code >= 2^31: grpc-go cannot carry it (malformed grpc-status) and drops the trailers with it']+=1; continue
            if 'error reading server preface' in t or 'failed to write client preface' in t or ('newstream' in t and 'Unavailable' in t and 'use of closed network connection' in t): filtered['deadline during the HTTP/2 connection preface: grpc-go reports Unavailable (connection-level, no grpchan counterpart)']+=1; continue
            if sig.startswith('C04') and any(re.search(r'hreturn .*-> status\(.*\\x.*,\d+d\)',l) for l in (r.get('history') or [])): filtered['invalid-UTF-8 status message with details (as above), seen by the C04 oracle as "not the handler\'s real status"']+=1; continue
            if 'per-RPC creds failed due to error:' in t and 'context ' in t: filtered['a credential that gave up because the context ended: grpc-go reports Internal ("per-RPC creds failed"), a status but not the context\'s code; grpchan reports Canceled/DeadlineExceeded (fix 2e03d05)']+=1; continue
            if sig.startswith(('C16','C17','H|')): continue
            c[sig]+=1; ex.setdefault(sig,(r['seed'],t))
print(f"calibration: {runs} runs on grpc-go")
for k,n in filtered.most_common(): print(f"  accepted difference x{n}: {k}")
for k,n in c.most_common(): print(f"  DISAGREEMENT x{n}: {k}\n      seed {ex[k][0]}: {ex[k][1][:400]}")
print("calibration:", "PASS" if not c else "FAIL (oracles disagree with the reference transport)")
sys.exit(1 if c else 0)
PY
