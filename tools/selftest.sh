#!/bin/bash
# Self-tests of the machinery (DESIGN.md section 10). Prints one line per test; exit 1 if any fails.
#   1. the simgen rewrite preserves behaviour: the repository's own suite passes on the instrumented copy (simulation off)
#   2. determinism: the same seeds give the same history/tape hashes in many fresh processes, whatever GOMAXPROCS says
export GOFLAGS=-mod=mod GOPROXY=off GOSUMDB=off GOTOOLCHAIN=local
V="$(cd "$(dirname "$0")/.." && pwd)"
export VERIF_DIR="$V"
S=$(mktemp -d ${TMPDIR:-/tmp}/verif-selftest-XXXX)
trap 'rm -rf $S' EXIT
fail=0
[ -x $V/bin/simgen ] || $V/setup.sh >/dev/null
# 1
$V/bin/simgen -tests /repo $S/inst . inprocgrpc httpgrpc internal && mkdir -p $S/inst/simrt && cp $V/simrt/simrt.go $S/inst/simrt/
if (cd $S/inst && GOTOOLCHAIN= go test -vet=off -count=1 ./... > $S/suite.txt 2>&1); then echo "selftest instrumented-suite: PASS ($(grep -c '^ok' $S/suite.txt) packages ok)"; else echo "selftest instrumented-suite: FAIL"; tail -20 $S/suite.txt; fail=1; fi
# 2
$V/build.sh $S/b >/dev/null 2>&1 || { echo "selftest build: FAIL"; exit 1; }
NSEEDS=${SELFTEST_SEEDS:-300}; NPROC=${SELFTEST_PROCS:-32}
for prof in ${SELFTEST_PROFILES:-c01f c04 c05 c06 c08 c13 c16 c09 c02f c10 c11 c12 c14 c17 c20 wcut c04e}; do
  for i in $(seq 1 $NPROC); do
    gm=$(( (i % 3 == 0) ? 16 : ((i % 3 == 1) ? 1 : 4) ))
    # wcut / c04e: enumeration workers; without a budget they enumerate 2 resp. 3 programs completely (thousands of runs)
    ( cd $S/b && GOMAXPROCS=$gm GODEBUG=asyncpreemptoff=1 ./sim.test -test.run '^TestWorker$' -profile $prof -seed 424242 -runs $NSEEDS -hashes -out $S/h_${prof}_$i.json >/dev/null 2>&1 ) &
    if (( i % 16 == 0 )); then wait; fi
  done
  wait
  python3 - $S $prof $NPROC <<'PY'
import json,sys
S,prof,n=sys.argv[1],sys.argv[2],int(sys.argv[3])
base=None; bad=0; total=0
for i in range(1,n+1):
    try: h=json.load(open(f"{S}/h_{prof}_{i}.json"))["hashes"]
    except Exception as e:
        print(f"selftest determinism {prof}: FAIL (process {i} gave no output: {e})"); sys.exit(1)
    if base is None: base=h; continue
    for k,v in h.items():
        total+=1
        if base.get(k)!=v:
            bad+=1
            if bad<=3: print(f"  differs: run {k} in process {i}: {v} vs {base.get(k)}")
print(f"selftest determinism {prof}: {'PASS' if bad==0 else 'FAIL'} ({len(base)} seeds x {n} processes, GOMAXPROCS env 1/4/16: {bad} differing hashes of {total} compared)")
sys.exit(1 if bad else 0)
PY
  [ $? -ne 0 ] && fail=1
done
exit $fail
