#!/usr/bin/env python3
import json
props = {
 "C01": ("exploration", "7 C01", "seeded search over simulated runs: generated client/handler scripts (1-3 concurrent RPCs per channel, all four kinds, both transports, message contents incl. empty/zero-length/64KiB/MiB/maps/Any), PRNG-chosen interleavings of sender, receiver and the library's own goroutines, byte-level fragmentation of the HTTP wire; oracle: received sequence is at every moment a prefix of the sent one, equal message by message, complete at a clean end; profile c01f adds cancels, deadlines and connection cuts at drawn steps; profile wcut enumerates a connection loss at every byte offset of reply and request (FIN and RST) of generated single-call HTTP programs on the real net/http path"),
 "C02": ("exploration", "7 C02", "seeded search: handlers return every canonical and out-of-range code, all message classes, details, plain/context/io.EOF errors, placed before/between/after responses; unencodable responses; connection cuts (clean/reset) at scheduler-chosen byte offsets in profile c02f; oracle: undisturbed call -> exact status through status.Convert; always: success only if the handler returned nil and everything arrived; profile wcut: connection loss at every byte offset of the reply on the real net/http path, a reply cut before the end of its trailer frame is never success"),
 "C03": ("exploration", "7 C03", "seeded search over orders of SetHeader/SendHeader/SendMsg/SetTrailer/return vs Header()/RecvMsg/Trailer(), duplicated grpc.Header/grpc.Trailer options, '-bin' values with arbitrary bytes, handler re-using its metadata objects afterwards, cancels between frames (profile c04e: at every step index of each program's baseline schedule); model of expected headers/trailers from the recorded handler calls"),
 "C04": ("exploration", "7 C04", "cancel placed at a drawn scheduler step (any point of the call), deadlines on the virtual clock fired at a drawn step, select choices between ready channel and ctx.Done() drawn from the tape; oracle: every client receive/unary call returning after the context ended yields the complete real result or a status with the matching code; promptness checked with clock and network frozen; handler context cancellation; profile c04e: complete enumeration of the step index at which each call is cancelled / its deadline passes, per program and baseline schedule; profile c04gc: forced garbage collection (finalizers) while a receive is pending"),
 "C05": ("exploration", "7 C05", "adversarial scripts (handler returns early, CloseSend racing SendMsg from two goroutines, operations after completion, sender/receiver goroutines, cancels); global deadlock detection at quiescence, panic capture in every actor and library goroutine, goroutine census after the end-of-run protocol; also after a connection loss at every byte offset (wcut) and a cancel at every step (c04e)"),
 "C06": ("exploration", "7 C06", "in-process only, all cloner configurations with a recording wrapper, pre-filled destinations, peer mutation at later steps, early return by cancel; structural walk for shared backing memory at every receive, behavioural re-check of received objects, recording cloner detects reads of the caller's or handler's message after the send/call that handed it over returned; mutations on all four object classes, re-check of everything sent and received at the end of each script; cancel at every step (c04e)"),
 "C07": ("fault_enumeration", "7 C07", "complete enumeration of every cut offset (clean and abrupt ending) of a fixed corpus of replies x 3 stream kinds through the RoundTripper seam, adversarial size prefaces with allocation metering, then seeded random replies/cuts/garbage; profile wcut: connection loss at every byte offset on the real net/http path (chunked encoding in play) with the wire-level clause 'cut before the end of the trailer frame is never success'; profile c11: server-side decoder fed arbitrary request bodies by the raw peer, judged against a reference frame reader"),
 "C08": ("exploration", "7 C08", "unary and client-streaming handlers producing 0,1,2..n responses with nil or error status, the extra response scheduled before/during/after the client's receive; over HTTP 0/1/2+ request frames to single-request methods via the raw peer (profile c11)"),
 "C09": ("exploration", "7 C09", "client deadlines log-uniform from 10us to ~200 years with scheduler-chosen transit delay on the virtual clock (two-sided exact bounds); raw peer sending GRPC-Timeout strings: every unit x 1-8 digits, over-long, huge, zero, negative, malformed"),
 "C10": ("exploration", "7 C10", "configuration search executed in simulated runs: caller context values under struct/pointer/string keys, outgoing metadata, credentials, deadlines, transport interceptors; schedule-dependent parts: caller re-using its metadata object while the call is in flight (incl. early return on cancel), nested calls from inside handlers on all three carriers"),
 "C11": ("exploration", "7 C11", "raw HTTP peer on the simulated wire through the real net/http client and server: methods, paths, Content-Type variants, bad '-bin' headers, bad GRPC-Timeout, bodies (well-formed proto/JSON/frames, empty, garbage, adversarial prefaces) for every registered kind and every handler outcome; reply parsed with an independent frame decoder"),
 "C12": ("exploration", "7 C12", "seeded input/configuration search (no schedule dependence, said plainly): overlapping service/method names, method-string mutations (missing slash, empty, single segment, extra segments, prefix/suffix, case, percent escapes, kind mismatch), base paths with and without trailing slash / nested / non-ASCII, Server and HandleServices"),
 "C13": ("exploration", "7 C13", "{http, https with real crypto/tls on simnet, in-process} x {secure/insecure/failing/none credentials} x {unary, streaming} x credential metadata x peer options; 'nothing crosses the wire' is observed on the simulated network (bytes written, connections dialled)"),
 "C14": ("exploration", "7 C14", "codes 0..16 and out-of-range values x cancelled-or-not x server-side-timeout x default/custom/silent renderer enumerated by seed through the raw peer and the real client; header-less replies with HTTP status 100..599 through the RoundTripper seam; documented table transcribed from the doc comment; 499 rule decided by cancel timing on the simulated wire"),
 "C16": ("exploration", "7 C16", "InterceptServer / WithInterceptor layers (0-2, nested) x transport-level interceptors on inprocgrpc, httpgrpc and grpc-go carriers x nil/non-nil per kind x pass/short-circuit/fail-after modes, decorated descriptions shared by several carriers, under cancel schedules; ordered event log compared with the composition the harness built"),
 "C17": ("exploration", "7 C17", "0-4 client interceptor layers x nil/non-nil per kind x pass/short-circuit/option-adding modes over in-process, HTTP and a real *grpc.ClientConn on simnet; identity, Unwrap chain, connection argument at every depth, options and method passed through"),
 "C20": ("exploration", "7 C20", "in-process streams with 1-50 attempted sends against a receiver that stalls after 0-3 receives (both directions, pending header frames, single-response methods with many responses); step invariant at every quiescent point: sends completed minus receives started <= 1 (client to handler) / <= 2 (handler to client: one buffered, one held by the client stream)"),
}
notes = "trusted: go toolchain, testing/synctest, the simgen rewrite (repository suite passes on the instrumented copy), kernel/simnet/oracles; goroutines inside net/http, crypto/tls, grpc-go are not schedule-searched (fixed by GOMAXPROCS=1, replayable); sampling, not proof, except where the evidence says exhaustive_part"
checks = []
for pid,(lvl,ref,txt) in props.items():
    checks.append({
        "property_id": pid,
        "quick_cmd": f"./check {pid} quick",
        "thorough_cmd": f"./check {pid} thorough",
        "evidence_file": f"/verif/evidence/{pid}.json",
        "replay_cmd_template": f"./check {pid} --replay {{path}}",
        "engine": "sim",
        "level_claimed": {"category": lvl, "text": txt, "design_ref": "DESIGN.md section " + ref},
        "level_note": notes,
        "technique": "deterministic simulation with fault injection: seeded search over simulated runs (scheduler-owned goroutine interleaving, select choice, virtual clock, in-memory network with fragmentation/cuts), history oracles, minimised replay files" + ("; complete enumeration of cut offsets for a fixed corpus and, per generated program, of every wire offset on the real net/http path" if pid=="C07" else "")+("; complete enumeration of cancel/deadline step positions per program and baseline schedule" if pid in ("C04","C03","C05","C06") else "")+("; complete enumeration of connection-loss byte offsets per program" if pid in ("C01","C02","C05") else ""),
    })
m = {
 "version": 1,
 "setup_cmd": "./setup.sh",
 "hooks": {
  "guard": "none in /repo: cmd/simgen instruments a scratch copy of /repo's working tree at check time (schedule points before every lock, channel operation, go statement; every select without default rewritten so the simulator decides among ready cases); with simrt.Current == nil the inserted calls are no-ops",
  "enable": "./build.sh <scratch> (run by ./check): simgen /repo <scratch>/repo . inprocgrpc httpgrpc internal; copies simrt/ into the copy; go1.26.8 test -c of harness/ against it",
  "baseline_off_cmd": "cd /repo && go test -vet=off -count=1 -timeout 25m ./...",
  "source_commits": [],
  "add_only": True
 },
 "engines": [{"name": "sim", "path": "/verif/harness (simulator), /verif/simrt (kernel), /verif/cmd/simgen (instrumenter), /verif/cmd/verifcheck (driver)", "serves_properties": list(props.keys()), "kind_free_text": "deterministic simulation with fault injection on testing/synctest"}],
 "checks": checks,
 "not_applicable": [
  {"property_id": "C15", "reason": "sequential map registry used from one goroutine: no schedule, clock, I/O, fault or second party for a simulator to control (DESIGN.md section 8)"},
  {"property_id": "C18", "reason": "cloner adapters are pure functions of their arguments; the schedule-dependent part (aliasing through live RPCs) is C06 (DESIGN.md section 8)"},
  {"property_id": "C19", "reason": "protoc plugin is a batch pure function from CodeGeneratorRequest to response; nothing to schedule or fail (DESIGN.md section 8)"}
 ],
 "notes": "VERIF_REPO=<dir> checks another checkout instead of /repo, VERIF_EVIDENCE_DIR=<dir> redirects evidence and replay files (both used for seeded-change trials only). Self-tests: tools/selftest.sh (instrumented suite, determinism), tools/calibrate.sh (oracles vs grpc-go), tools/seeded_regress.sh (kept seeded changes). exit 0 held / 1 VIOLATION (minimised, replay-verified in a fresh process) / 2 cannot decide (build, worker crash, non-replayable). Known findings: /verif/known_findings.json. VERIF_SEED selects the seed block; VERIF_BUDGET_S overrides the per-worker search budget."
}
json.dump(m, open('/verif/MANIFEST.json','w'), indent=1)
print("checks:", len(checks))
