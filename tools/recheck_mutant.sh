#!/bin/bash
# usage: recheck_mutant.sh <seeded-name> <prop>...   re-runs checks against a kept seeded change (scratch worktree, /repo untouched)
export GOFLAGS=-mod=mod GOPROXY=off GOSUMDB=off GOTOOLCHAIN=local
NAME=$1; shift
D=/verif/seeded/$NAME
V=/tmp/mutr-$NAME
git -C /repo worktree remove --force $V 2>/dev/null
BASE=$(python3 -c "import json;print(json.load(open('$D/meta.json')).get('base_commit','HEAD'))" 2>/dev/null || echo HEAD)
git -C /repo worktree add -q --detach $V $BASE || exit 3
git -C $V apply $D/patch.diff 2>/dev/null || { git -C $V apply -3 $D/patch.diff >/dev/null 2>&1 && ! git -C $V diff --name-only --diff-filter=U | grep -q . ; } || { echo "$NAME PATCH-DOES-NOT-APPLY"; git -C /repo worktree remove --force $V; exit 3; }
cd /verif
for P in "$@"; do
  VERIF_REPO=$V VERIF_EVIDENCE_DIR=/tmp/mutr-$NAME-ev ./check $P ${TIER:-quick} > $D/check_$P.txt 2>&1; rc=$?
  echo "$NAME check $P exit=$rc"
  sed -i "/^check $P exit=/d" $D/confirm.txt 2>/dev/null; echo "check $P exit=$rc" >> $D/confirm.txt
  grep -E "^(violation:|cannot decide)" $D/check_$P.txt | cut -c1-200 | head -4
done
rm -rf /tmp/mutr-$NAME-ev
git -C /repo worktree remove --force $V
