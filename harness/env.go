package sim

import (
	"bytes"
	"context"
	"fmt"
	"log"
	"net"
	"net/http"
	"net/url"
	"sort"
	"strings"
	"sync"
	"time"

	"github.com/fullstorydev/grpchan"
	"github.com/fullstorydev/grpchan/httpgrpc"
	"github.com/fullstorydev/grpchan/inprocgrpc"
	"github.com/fullstorydev/grpchan/simrt"
	"github.com/jhump/protoreflect/dynamic"
	"google.golang.org/grpc"
	"google.golang.org/grpc/status"
	"google.golang.org/protobuf/proto"
)

// Env holds the carriers of one run: the in-process channel, the HTTP/1.1
// client and server on simnet, and (optionally) grpc-go on simnet.
type Env struct {
	s       *Sim
	inproc  *inprocgrpc.Channel
	httpCh  grpc.ClientConnInterface
	rawHTTP *httpgrpc.Channel
	hs      *http.Server
	ln      *listener
	tr      *http.Transport
	logMu   sync.Mutex
	srvLog  bytes.Buffer
	grpc    *grpcCarrier
	grpcCC  *grpc.ClientConn
	conns   map[string]grpc.ClientConnInterface
	descs   []*grpc.ServiceDesc
	cloner  *recCloner
}

type lockedWriter struct{ e *Env }

func (w lockedWriter) Write(p []byte) (int, error) {
	w.e.logMu.Lock()
	defer w.e.logMu.Unlock()
	return w.e.srvLog.Write(p)
}

func (e *Env) conn(transport string) grpc.ClientConnInterface {
	return e.conns[transport]
}

func (p *Program) uses(transport string) bool {
	for _, r := range p.RPCs {
		if r.Transport == transport {
			return true
		}
	}
	return false
}

// buildDescs creates one ServiceDesc per service name used by the program.
func (s *Sim) buildDescs() []*grpc.ServiceDesc {
	type key struct{ svc string }
	bySvc := map[string]*grpc.ServiceDesc{}
	var order []string
	add := func(svc, meth string, kind int) {
		d := bySvc[svc]
		if d == nil {
			d = &grpc.ServiceDesc{ServiceName: svc, HandlerType: (*any)(nil), Metadata: "sim.proto"}
			bySvc[svc] = d
			order = append(order, svc)
		}
		for _, m := range d.Methods {
			if m.MethodName == meth {
				return
			}
		}
		for _, m := range d.Streams {
			if m.StreamName == meth {
				return
			}
		}
		if kind == KUnary {
			d.Methods = append(d.Methods, grpc.MethodDesc{MethodName: meth, Handler: func(srv any, ctx context.Context, dec func(any) error, interceptor grpc.UnaryServerInterceptor) (any, error) {
				rs := s.lookupRPCctx(svc, meth, ctx)
				if rs == nil {
					s.stray(svc, meth)
					return nil, status.Error(99, "stray")
				}
				return s.unaryHandler(rs, ctx, dec, interceptor)
			}})
		} else {
			d.Streams = append(d.Streams, grpc.StreamDesc{StreamName: meth, ClientStreams: kind == KClientStream || kind == KBidi, ServerStreams: kind == KServerStream || kind == KBidi,
				Handler: func(srv any, stream grpc.ServerStream) error {
					rs := s.lookupRPCctx(svc, meth, stream.Context())
					if rs == nil {
						s.stray(svc, meth)
						return status.Error(99, "stray")
					}
					return s.streamHandler(rs, stream)
				}})
		}
	}
	for _, r := range s.prog.RPCs {
		if r.Svc != "" && r.Meth != "" {
			k := r.Kind
			if r.KindMismatch {
				// registered with the other call shape than the client uses
				if k == KUnary {
					k = KServerStream
				} else {
					k = KUnary
				}
			}
			add(r.Svc, r.Meth, k)
		}
	}
	for _, x := range s.prog.Cfg.Extra {
		add(x.Svc, x.Meth, x.Kind)
	}
	sort.Strings(order)
	var out []*grpc.ServiceDesc
	for _, svc := range order {
		out = append(out, bySvc[svc])
	}
	return out
}

func (s *Sim) stray(svc, meth string) {
	s.instant(-1, 'h', 0, "stray", func(e *Event) { e.Note = svc + "/" + meth })
}

func (s *Sim) setupEnv() {
	e := &Env{s: s, conns: map[string]grpc.ClientConnInterface{}}
	s.env = e
	cfg := &s.prog.Cfg
	e.descs = s.buildDescs()
	// every carrier gets its own transport-level interceptor (all called "T"
	// in the event log, but distinct functions tagged with the carrier), while
	// the decorated service descriptions are built once and shared by all
	// carriers, the way a decorated HandlerMap is re-used for several servers
	var uInt grpc.UnaryServerInterceptor
	var sInt grpc.StreamServerInterceptor
	carrierInts := func(carrier string) {
		uInt, sInt = nil, nil
		if cfg.TIntOnly != "" && cfg.TIntOnly != carrier {
			return
		}
		if cfg.TUnaryInt {
			uInt = s.serverUnaryInt("T@" + carrier)
		}
		if cfg.TStreamInt {
			sInt = s.serverStreamInt("T@" + carrier)
		}
	}
	decorated := map[*grpc.ServiceDesc]*grpc.ServiceDesc{}
	for _, d := range e.descs {
		decorated[d] = s.decorateDesc(d)
	}
	register := func(reg grpc.ServiceRegistrar) {
		reg = s.decorateRegistrar(reg)
		for _, d := range e.descs {
			reg.RegisterService(decorated[d], s)
		}
	}

	if s.prog.uses(TInproc) {
		carrierInts(TInproc)
		ch := &inprocgrpc.Channel{}
		if uInt != nil {
			ch.WithServerUnaryInterceptor(uInt)
		}
		if sInt != nil {
			ch.WithServerStreamInterceptor(sInt)
		}
		if c := s.makeCloner(cfg.Cloner); c != nil {
			ch.WithCloner(c)
		}
		register(ch)
		e.inproc = ch
		e.conns[TInproc] = s.wrapClient(ch)
	}
	if s.prog.uses(THTTP) {
		carrierInts(THTTP)
		base := cfg.BasePath
		if base == "" {
			base = "/"
		}
		var handler http.Handler
		var hopts []httpgrpc.HandlerOption
		switch cfg.Renderer {
		case 1:
			hopts = append(hopts, httpgrpc.ErrorRenderer(func(ctx context.Context, st *status.Status, w http.ResponseWriter) {
				w.Header().Set("X-Custom-Renderer", "1")
				w.Header().Set("X-Req-Ctx-Done", fmt.Sprint(ctx.Err() != nil))
				http.Error(w, "custom: "+st.Code().String(), 418)
			}))
		case 2:
			hopts = append(hopts, httpgrpc.ErrorRenderer(func(ctx context.Context, st *status.Status, w http.ResponseWriter) {}))
		}
		func() {
			// registering under a base path the mux cannot express must not crash the application
			defer func() {
				if p := recover(); p != nil {
					s.violate("C12", fmt.Sprintf("C12|http|registration-panics|base=%s", baseShape(base)), -1,
						"registering the services under base path %q (HandleServices=%v) panicked: %v", base, cfg.UseHandle, p)
					handler = http.NotFoundHandler()
				}
			}()
		if cfg.UseHandle {
			reg := grpchan.HandlerMap{}
			register(reg)
			mux := http.NewServeMux()
			httpgrpc.HandleServices(mux.HandleFunc, base, reg, uInt, sInt, hopts...)
			handler = mux
		} else {
			opts := []httpgrpc.ServerOption{httpgrpc.WithBasePath(base)}
			if uInt != nil {
				opts = append(opts, httpgrpc.WithServerUnaryInterceptor(uInt))
			}
			if sInt != nil {
				opts = append(opts, httpgrpc.WithServerStreamInterceptor(sInt))
			}
			for _, ho := range hopts {
				opts = append(opts, ho)
			}
			srv := httpgrpc.NewServer(opts...)
			register(srv)
			handler = srv
		}
		}()
		e.ln = newListener(&net.TCPAddr{IP: net.IPv4(10, 0, 0, 2), Port: 80})
		e.hs = &http.Server{Handler: handler, ErrorLog: log.New(lockedWriter{e}, "", 0)}
		scheme := "http"
		if cfg.TLS {
			scheme = "https"
			e.ln.addr = &net.TCPAddr{IP: net.IPv4(10, 0, 0, 2), Port: 443}
			s.setupTLS(e)
		} else {
			go e.hs.Serve(e.ln)
		}
		if e.tr == nil {
			e.tr = &http.Transport{}
		}
		e.tr.DialContext = func(ctx context.Context, network, addr string) (net.Conn, error) {
			return s.dial(e.ln, "http")
		}
		e.tr.DisableCompression = true
		// only matters for requests that carry "Expect: 100-continue" (raw peer)
		e.tr.ExpectContinueTimeout = time.Hour
		u := &url.URL{Scheme: scheme, Host: "sim.test", Path: base}
		if cfg.Host6 && !cfg.TLS {
			u.Host = "[fd00::2]"
		}
		var rt http.RoundTripper = e.tr
		switch cfg.ProxyMode {
		case 1:
			rt = &proxyRT{s: s, next: e.tr}
		case 2:
			rt = &cannedRT{s: s}
		}
		e.rawHTTP = &httpgrpc.Channel{Transport: rt, BaseURL: u}
		e.conns[THTTP] = s.wrapClient(e.rawHTTP)
	}
	if s.prog.uses(TGRPC) {
		s.setupGRPC(e, register)
	}
}

func (e *Env) shutdown() {
	if e.tr != nil {
		e.tr.CloseIdleConnections()
	}
	if e.hs != nil {
		e.hs.Close()
	}
	if e.ln != nil {
		e.ln.Close()
	}
	if e.grpc != nil {
		e.grpc.shutdown()
	}
}

func (e *Env) serverLog() string {
	e.logMu.Lock()
	defer e.logMu.Unlock()
	return e.srvLog.String()
}

// rpcsOnConn returns the ids of the RPCs whose request line appears in the
// client-to-server byte record of the connection.
func (s *Sim) rpcsOnConn(p *connPair) []int {
	p.c2s.mu.Lock()
	rec := string(p.c2s.wrote)
	p.c2s.mu.Unlock()
	var out []int
	for _, rs := range s.rpcs {
		if rs.r.Transport != THTTP {
			continue
		}
		path := rs.r.Call
		if !strings.HasPrefix(path, "/") {
			path = "/" + path
		}
		if strings.Contains(rec, path+" HTTP/1.1") {
			out = append(out, rs.r.ID)
		}
	}
	return out
}

// ---------------------------------------------------------------------------
// server-side interceptors (transport level and decoration level)

func (s *Sim) rpcByFullMethod(fm string, ctx context.Context) *rpcState {
	parts := strings.SplitN(strings.TrimPrefix(fm, "/"), "/", 2)
	if len(parts) != 2 {
		return nil
	}
	return s.lookupRPCctx(parts[0], parts[1], ctx)
}

func (s *Sim) serverUnaryInt(layer string) grpc.UnaryServerInterceptor {
	return func(ctx context.Context, req any, info *grpc.UnaryServerInfo, handler grpc.UnaryHandler) (any, error) {
		id := -1
		if rs := s.rpcByFullMethod(info.FullMethod, ctx); rs != nil {
			id = rs.r.ID
			simrt.Adopt(fmt.Sprintf("h%d", id), id)
			simrt.Yield(fmt.Sprintf("h%d:int", id))
		}
		s.instant(id, 'h', 0, "int-enter", func(e *Event) {
			e.Note = layer
			e.Flags = map[string]string{"method": info.FullMethod, "sees": strings.Join(layerMarks(ctx), ",")}
			if m, ok := req.(proto.Message); ok {
				e.Got = digestMsg(m)
			}
		})
		// onward with a context of its own making
		ctx = withLayerMark(ctx, layer)
		resp, err := handler(ctx, req)
		s.instant(id, 'h', 0, "int-exit", func(e *Event) {
			e.Note = layer
			e.Err = classify(err)
			if m, ok := resp.(proto.Message); ok && !isNilValue(resp) {
				e.Got = digestMsg(m)
			}
		})
		return resp, err
	}
}

func (s *Sim) serverStreamInt(layer string) grpc.StreamServerInterceptor {
	return func(srv any, ss grpc.ServerStream, info *grpc.StreamServerInfo, handler grpc.StreamHandler) error {
		if strings.HasPrefix(info.FullMethod, scribbledMethod) {
			// what an interceptor of an earlier call wrote into *its* info
			s.violate("C16", "C16|interceptor-info-shared-across-calls|"+layerKind(layer), -1,
				"stream interceptor %q was given FullMethod=%q IsClientStream=%v IsServerStream=%v: the per-call information another call's interceptor modified after its handler had returned", layer, info.FullMethod, info.IsClientStream, info.IsServerStream)
		}
		// "All per-rpc information may be mutated by the interceptor" (grpc):
		// this one does, once its part of the call is over
		defer func() {
			info.FullMethod = scribbledMethod + layer
			info.IsClientStream, info.IsServerStream = !info.IsClientStream, !info.IsServerStream
		}()
		id := -1
		if rs := s.rpcByFullMethod(info.FullMethod, ss.Context()); rs != nil {
			id = rs.r.ID
			simrt.Adopt(fmt.Sprintf("h%d", id), id)
			simrt.Yield(fmt.Sprintf("h%d:int", id))
		}
		s.instant(id, 'h', 0, "int-enter", func(e *Event) {
			e.Note = layer
			e.Flags = map[string]string{"method": info.FullMethod, "cs": fmt.Sprint(info.IsClientStream), "ss": fmt.Sprint(info.IsServerStream), "sees": strings.Join(layerMarks(ss.Context()), ",")}
		})
		// onward with a stream whose context is of its own making
		ss = &markedStream{ServerStream: ss, ctx: withLayerMark(ss.Context(), layer)}
		err := handler(srv, ss)
		s.instant(id, 'h', 0, "int-exit", func(e *Event) {
			e.Note = layer
			e.Err = classify(err)
		})
		return err
	}
}

type layerMarkKey struct{}

func layerMarks(ctx context.Context) []string {
	m, _ := ctx.Value(layerMarkKey{}).([]string)
	return m
}

func withLayerMark(ctx context.Context, layer string) context.Context {
	return context.WithValue(ctx, layerMarkKey{}, append(append([]string{}, layerMarks(ctx)...), layer))
}

type markedStream struct {
	grpc.ServerStream
	ctx context.Context
}

func (m *markedStream) Context() context.Context { return m.ctx }

const scribbledMethod = "/scribbled.by.an.earlier.call/"

func layerKind(layer string) string {
	if i := strings.IndexAny(layer, "0123456789"); i > 0 {
		return layer[:i]
	}
	return layer
}

// ---------------------------------------------------------------------------
// cloners

type recCloner struct {
	s     *Sim
	inner inprocgrpc.Cloner
}

func (c *recCloner) Copy(out, in any) error {
	c.s.probe("cloner-copy")
	c.s.noteCopy(in)
	return c.inner.Copy(out, in)
}

func (c *recCloner) Clone(in any) (any, error) {
	c.s.probe("cloner-clone")
	c.s.noteCopy(in)
	return c.inner.Clone(in)
}

// noteCopy checks "once a unary call or a stream send has returned to the
// caller, the library no longer reads the caller's message": a copy whose
// source is a client-side object after the operation that handed it over has
// returned is a violation.
func (s *Sim) noteCopy(in any) {
	s.mu.Lock()
	defer s.mu.Unlock()
	for _, rs := range s.rpcs {
		if rs.r.Transport != TInproc {
			continue
		}
		for i, o := range rs.sentObjs {
			if o == in {
				// find the send/invoke event number i
				n := 0
				for _, ev := range s.hist {
					if ev.RPC == rs.r.ID && ev.Side == 'c' && (ev.Op == "send" || ev.Op == "invoke") {
						if n == i {
							if ev.RSeq != 0 {
								s.viols = append(s.viols, Violation{Prop: "C06", RPC: rs.r.ID,
									Sig:  fmt.Sprintf("C06|inproc|%s|read-after-return|%s", kindNames[rs.r.Kind], ev.Op),
									Text: fmt.Sprintf("rpc%d: the library copies the caller's message (client %s #%d, returned at seq %d) after that call returned", rs.r.ID, ev.Op, i, ev.RSeq)})
							}
							return
						}
						n++
					}
				}
				return
			}
		}
		if rs.r.Kind == KUnary {
			continue // a unary response is necessarily read after the handler returned it
		}
		for i, o := range rs.hSentObjs {
			if o != in {
				continue
			}
			n := 0
			for _, ev := range s.hist {
				if ev.RPC == rs.r.ID && ev.Side == 'h' && ev.Op == "send" {
					if n == i {
						if ev.RSeq != 0 {
							s.viols = append(s.viols, Violation{Prop: "C06", RPC: rs.r.ID,
								Sig:  fmt.Sprintf("C06|inproc|%s|read-after-return|handler-send", kindNames[rs.r.Kind]),
								Text: fmt.Sprintf("rpc%d: the library copies the handler's message (handler send #%d, returned at seq %d) after that send returned", rs.r.ID, i, ev.RSeq)})
						}
						return
					}
					n++
				}
			}
			return
		}
	}
}

func (s *Sim) makeCloner(kind int) inprocgrpc.Cloner {
	var inner inprocgrpc.Cloner
	switch kind {
	case 0:
		return nil
	case 1:
		inner = inprocgrpc.ProtoCloner{}
	case 2:
		inner = inprocgrpc.CodecCloner(protoCodec{})
	case 3:
		inner = inprocgrpc.CloneFunc(func(in any) (any, error) {
			if dm, ok := in.(*dynamic.Message); ok {
				b, err := dm.Marshal()
				if err != nil {
					return nil, err
				}
				out := dynamic.NewMessage(dm.GetMessageDescriptor())
				return out, out.Unmarshal(b)
			}
			return proto.Clone(in.(proto.Message)), nil
		})
	case 4:
		inner = inprocgrpc.CopyFunc(func(out, in any) error {
			if isDyn(out) || isDyn(in) {
				b, err := anyMarshal(in)
				if err != nil {
					return err
				}
				return anyUnmarshal(b, out)
			}
			o, i := out.(proto.Message), in.(proto.Message)
			if o.ProtoReflect().Descriptor().FullName() != i.ProtoReflect().Descriptor().FullName() {
				return fmt.Errorf("cannot copy %s into %s", i.ProtoReflect().Descriptor().FullName(), o.ProtoReflect().Descriptor().FullName())
			}
			proto.Reset(o)
			proto.Merge(o, i)
			return nil
		})
	}
	return &recCloner{s: s, inner: inner}
}

// anyMarshal / anyUnmarshal: the wire form of a generated or a dynamic message.
func anyMarshal(v any) ([]byte, error) {
	if dm, ok := v.(*dynamic.Message); ok {
		return dm.Marshal()
	}
	return proto.Marshal(v.(proto.Message))
}

func anyUnmarshal(b []byte, v any) error {
	if dm, ok := v.(*dynamic.Message); ok {
		return dm.Unmarshal(b)
	}
	return proto.Unmarshal(b, v.(proto.Message))
}

type protoCodec struct{}

func (protoCodec) Marshal(v any) ([]byte, error)   { return anyMarshal(v) }
func (protoCodec) Unmarshal(b []byte, v any) error { return anyUnmarshal(b, v) }
func (protoCodec) Name() string { return "simproto" }
