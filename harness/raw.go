package sim

import (
	"bytes"
	"encoding/base64"
	"fmt"
	"io"
	"net/http"
	"net/url"
	"regexp"
	"strconv"
	"strings"
	"time"

	"github.com/fullstorydev/grpchan/grpchantesting"
	"github.com/fullstorydev/grpchan/httpgrpc"
	"github.com/fullstorydev/grpchan/simrt"
	"google.golang.org/grpc/codes"
	"google.golang.org/protobuf/encoding/protojson"
	"google.golang.org/protobuf/proto"
)

// RawReq is a hand-built HTTP request issued by the raw peer: a foreign
// client on the simulated wire, going through the real net/http transport and
// server.
type RawReq struct {
	Method string `json:"method"`
	Path   string `json:"path"`
	Hdrs   []KV   `json:"hdrs,omitempty"`
	Body   RawStr `json:"body,omitempty"`
	Note   string `json:"note,omitempty"`
	// Chunked: the body is sent without Content-Length (chunked transfer
	// encoding), as clients do that stream a request
	Chunked bool `json:"chunked,omitempty"`
}

// unsizedReader hides the length of a request body from net/http.
type unsizedReader struct{ io.Reader }

// rawClient runs the raw operations of an RPC whose client is the raw peer.
func (s *Sim) rawClient(rs *rpcState, ops []Op) {
	r := rs.r
	name := fmt.Sprintf("c%d.0", r.ID)
	simrt.Yield(name + ":start")
	s.startRPC(rs)
	for _, op := range ops {
		simrt.Yield(name + ":" + op.K)
		switch op.K {
		case "raw":
			s.rawOp(rs, op.Raw)
		case "sleep":
			ev := s.begin(r.ID, 'c', 0, "sleep")
			s.sleep(time.Duration(op.D))
			s.end(ev, nil)
		}
	}
	s.clientExit(rs)
}

func (s *Sim) rawOp(rs *rpcState, rq *RawReq) {
	r := rs.r
	ev := s.begin(r.ID, 'c', 0, "raw")
	ev.Note = rq.Note
	ev.Flags = map[string]string{}
	err := guard(ev, func() error {
		u := &url.URL{Scheme: "http", Host: "sim.test", Path: rq.Path}
		var body io.Reader = bytes.NewReader([]byte(rq.Body))
		if rq.Chunked {
			body = unsizedReader{body}
		}
		req, err := http.NewRequestWithContext(rs.ctx, "POST", u.String(), body)
		if err != nil {
			return err
		}
		req.Method = rq.Method
		for _, kv := range rq.Hdrs {
			req.Header[kv.K] = append(req.Header[kv.K], string(kv.V))
		}
		resp, err := s.env.tr.RoundTrip(req)
		if err != nil {
			return err
		}
		defer resp.Body.Close()
		b, rerr := io.ReadAll(resp.Body)
		ev.Flags["status"] = fmt.Sprint(resp.StatusCode)
		ev.Flags["grpc-status"] = resp.Header.Get("X-GRPC-Status")
		ev.Flags["content-type"] = resp.Header.Get("Content-Type")
		ev.Flags["allow"] = resp.Header.Get("Allow")
		ev.MD = map[string][]string{}
		for k, v := range resp.Header {
			ev.MD[strings.ToLower(k)] = append([]string(nil), v...)
		}
		ev.RawBody = b
		ev.Got = fmt.Sprintf("%dB", len(b))
		return rerr
	})
	simrt.Woken("raw-return")
	s.end(ev, err)
}

// ---------------------------------------------------------------------------
// C09: deadlines across the HTTP transport

func init() {
	specialGenerators["c09"] = genC09
	specialGenerators["c11"] = genC11
	specialGenerators["c14"] = genC14
	extraOracles = append(extraOracles, oracleC09, oracleC11, oracleC14)
}

var timeoutUnits = map[byte]time.Duration{'H': time.Hour, 'M': time.Minute, 'S': time.Second, 'm': time.Millisecond, 'u': time.Microsecond, 'n': time.Nanosecond}

func genC09(g *gen, seed int64) *Program {
	p := &Program{Profile: "c09", Seed: seed}
	p.Cfg.Policy = g.pick(3)
	p.Cfg.NetEager = g.p(0.5)
	p.Cfg.Frag = g.pick(3)
	n := 1 + g.pick(2)
	for id := 0; id < n; id++ {
		r := &RPC{ID: id, Transport: THTTP, Svc: "sim.S", Meth: fmt.Sprintf("M%d", id)}
		r.Call = "/" + r.Svc + "/" + r.Meth
		if g.p(0.5) {
			// real client with a context deadline
			r.Kind = []int{KUnary, KServerStream, KClientStream, KBidi}[g.pick(4)]
			if g.p(0.85) {
				// log-uniform from 10us to ~200 years
				exp := 4 + g.rng.Float64()*14.8
				d := 1.0
				for i := 0.0; i < exp; i++ {
					d *= 10
				}
				r.DeadlineN = int64(d) + g.uniq()
			}
			if g.p(0.3) {
				// per-RPC credentials whose lookup takes time (a token refresh):
				// that time is the caller's, not transit
				r.Creds = &CredSpec{MD: []KV{{K: "authorization", V: "tok"}}}
				if g.p(0.8) {
					r.Creds.DelayN = int64(1+g.pick(900))*1e6 + g.uniq()
				}
			}
			switch r.Kind {
			case KUnary:
				r.Client = []Op{{K: "invoke", Msg: g.msg()}}
				r.Handler = []Op{{K: "decode"}, {K: "return", Msg: g.msg()}}
			case KServerStream:
				r.Client = []Op{{K: "send", Msg: g.msg()}, {K: "closesend"}, {K: "recvall"}}
				r.Handler = []Op{{K: "recv"}, {K: "send", Msg: g.msg()}, {K: "return"}}
			default:
				r.Client = []Op{{K: "send", Msg: g.msg()}, {K: "closesend"}, {K: "recvall"}}
				r.Handler = []Op{{K: "recvall"}, {K: "send", Msg: g.msg()}, {K: "return"}}
			}
		} else {
			// raw peer sending a GRPC-Timeout string
			r.Kind = []int{KUnary, KServerStream}[g.pick(2)]
			r.RawClient = true
			var tv string
			units := "HMSmun"
			switch g.pick(12) {
			case 0, 1, 2, 3: // the wire format: 1-8 digits and a unit
				nd := 1 + g.pick(8)
				tv = g.digits(nd) + string(units[g.pick(6)])
			case 4: // largest values
				tv = "99999999" + string(units[g.pick(6)])
			case 5: // over-long values
				tv = g.digits(9+g.pick(11)) + string(units[g.pick(6)])
			case 6:
				tv = "0" + string(units[g.pick(6)])
			case 7:
				tv = "-" + g.digits(1+g.pick(5)) + string(units[g.pick(6)])
			case 8:
				tv = []string{"", " ", "S", "m", "5", "12", "5x", "5s", "5 S", " 5S", "5S ", "+5S", "5.5S", "0x5S", "٣S", "S5", "--5S", "9223372036854775807n", "9223372036854775808n", "18446744073709551616H", "00000000000000000001S"}[g.pick(21)]
			case 9:
				c := byte(0x20 + g.pick(0x5f))
				if g.p(0.3) {
					c = byte(0x80 + g.pick(0x80))
				}
				tv = g.digits(1+g.pick(3)) + string([]byte{c})
			default:
				tv = "" // no header at all
			}
			hdrs := []KV{{K: "Content-Type", V: RawStr(httpgrpc.UnaryRpcContentType_V1)}}
			body := mustMarshal((&MsgSpec{Tag: 1, Size: 3}).Build())
			if r.Kind == KServerStream {
				hdrs[0].V = RawStr(httpgrpc.StreamRpcContentType_V1)
				body = refFrame(body, false)
			}
			if tv != "" || g.p(0.2) {
				hdrs = append(hdrs, KV{K: "GRPC-Timeout", V: RawStr(tv)})
			}
			r.Client = []Op{{K: "raw", Raw: &RawReq{Method: "POST", Path: r.Call, Hdrs: hdrs, Body: RawStr(body), Note: "GRPC-Timeout=" + strconv.Quote(tv)}}}
			if r.Kind == KUnary {
				r.Handler = []Op{{K: "decode"}, {K: "return", Msg: g.msg()}}
			} else {
				r.Handler = []Op{{K: "recv"}, {K: "return"}}
			}
		}
		p.RPCs = append(p.RPCs, r)
	}
	// transit delay: the clock moves while requests are on the wire
	for i := 0; i < g.pick(3); i++ {
		p.Faults = append(p.Faults, Fault{Kind: "advance", Step: g.pick(60), D: int64(g.pick(500))*1e6 + g.uniq()})
	}
	return p
}

func (g *gen) digits(n int) string {
	b := make([]byte, n)
	for i := range b {
		b[i] = byte('0' + g.pick(10))
	}
	return string(b)
}

func mustMarshal(m proto.Message) []byte {
	b, err := proto.Marshal(m)
	if err != nil {
		panic(err)
	}
	return b
}

var wireTimeout = regexp.MustCompile(`^[0-9]+[HMSmun]$`)

func oracleC09(s *Sim) {
	if s.prog.Profile != "c09" {
		return
	}
	const ms = int64(time.Millisecond)
	for _, v := range s.views() {
		if v.r.Transport != THTTP {
			continue
		}
		if !v.r.RawClient {
			if v.hStart == nil {
				continue
			}
			s.stats.Probes["C09-relevant"]++
			hd, has := v.hStart.Flags["deadline"]
			if v.rs.deadline.IsZero() {
				if has {
					v.fail("C09", "deadline-invented", "caller has no deadline but the handler's context has one (%s ns after start)", hd)
				}
				continue
			}
			D := int64(v.rs.deadline.Sub(s.t0))
			if !has {
				v.fail("C09", "deadline-dropped", "caller deadline at %d ns but the handler's context has none", D)
				continue
			}
			Dh, _ := strconv.ParseInt(hd, 10, 64)
			issued := int64(0)
			switch {
			case v.invoke != nil:
				issued = v.invoke.T
			case v.newstream != nil:
				issued = v.newstream.T
			}
			transit := v.hStart.T - issued
			// transit proper starts when the request's first byte goes onto the
			// connection (time the caller spends before that, e.g. in a slow
			// credential lookup, is not transit)
			// (not from the first byte on the wire: between computing the
			// timeout and writing the request the library's own goroutine may
			// be delayed, which it cannot account for.) What it can and must
			// account for is time spent obtaining per-RPC credentials: the
			// request cannot be issued before the lookup has returned.
			for _, ev := range v.ev {
				if ev.Op == "creds-delay" && ev.RSeq != 0 && ev.RT > issued && ev.RT <= v.hStart.T {
					issued = ev.RT
					transit = v.hStart.T - issued
					s.stats.Probes["c09-issued-after-credentials"]++
				}
			}
			if transit < 0 {
				transit = 0
			}
			if Dh > D+transit+ms {
				v.fail("C09", "deadline-extended", "caller deadline %d ns, request issued at %d, handler entered at %d (transit %d): handler deadline %d is later than caller's + transit + 1ms by %d ns", D, issued, v.hStart.T, transit, Dh, Dh-(D+transit+ms))
			}
			if Dh < D-ms {
				v.fail("C09", "deadline-shortened", "caller deadline %d ns: handler deadline %d is earlier by %d ns (more than the 1 ms granularity)", D, Dh, D-Dh)
			}
			continue
		}
		// raw peer
		var raw *Event
		for _, ev := range v.ev {
			if ev.Op == "raw" {
				raw = ev
			}
		}
		if raw == nil || raw.RSeq == 0 {
			continue
		}
		s.stats.Probes["C09-relevant"]++
		tv, present := "", false
		for _, op := range v.r.Client {
			if op.Raw != nil {
				for _, kv := range op.Raw.Hdrs {
					if kv.K == "GRPC-Timeout" {
						tv, present = string(kv.V), true
					}
				}
			}
		}
		if raw.Err.Class == "panic" {
			v.fail("C09", "raw-peer-panic", "GRPC-Timeout %q: %s", tv, raw.Err.Text)
			continue
		}
		if raw.Flags["status"] == "" {
			if strings.Contains(raw.Err.Text, "invalid header field") {
				continue // the client-side transport refused to send it
			}
			v.fail("C09", "no-answer|"+classifyTimeout(tv), "GRPC-Timeout %q: the server did not answer (%s)", tv, raw.Err)
			continue
		}
		if v.hStart == nil {
			if !present || wireTimeout.MatchString(tv) {
				v.fail("C09", "valid-timeout-rejected|"+classifyTimeout(tv), "GRPC-Timeout %q (present: %v): the handler did not run, HTTP status %s", tv, present, raw.Flags["status"])
			}
			continue
		}
		hd, has := v.hStart.Flags["deadline"]
		if !present || tv == "" {
			if has {
				v.fail("C09", "deadline-invented", "no GRPC-Timeout but the handler's context has a deadline")
			}
			continue
		}
		if !wireTimeout.MatchString(tv) {
			continue // not of the valid form: only "answers, no crash" is required
		}
		val, perr := strconv.ParseUint(tv[:len(tv)-1], 10, 64)
		unit := timeoutUnits[tv[len(tv)-1]]
		representable := perr == nil && val <= uint64((1<<63-1)/int64(unit))
		if !representable {
			// saturate: no deadline at all, or one at least 100 years away; never one in the past
			if has {
				Dh, _ := strconv.ParseInt(hd, 10, 64)
				if Dh-v.hStart.T < int64(100*365*24*time.Hour) {
					v.fail("C09", "overflow-not-saturated|"+classifyTimeout(tv), "GRPC-Timeout %q does not fit a duration: handler deadline is %d ns after entry instead of saturating", tv, Dh-v.hStart.T)
				}
			}
			continue
		}
		if !has {
			v.fail("C09", "deadline-dropped|"+classifyTimeout(tv), "GRPC-Timeout %q: the handler's context has no deadline", tv)
			continue
		}
		Dh, _ := strconv.ParseInt(hd, 10, 64)
		want := int64(val) * int64(unit)
		got := Dh - v.hStart.T
		// the deadline is set when the request head arrives; the handler is
		// entered later by at most the time since the request was issued
		slack := v.hStart.T - raw.T
		if want > int64(100*365*24*time.Hour) {
			// far beyond what time arithmetic around "now" can represent exactly
			if got < int64(100*365*24*time.Hour) {
				v.fail("C09", "wrong-duration|"+classifyTimeout(tv), "GRPC-Timeout %q: handler gets %d ns, expected about %d ns", tv, got, want)
			}
		} else if got > want || got < want-slack {
			v.fail("C09", "wrong-duration|"+classifyTimeout(tv), "GRPC-Timeout %q: handler gets %d ns at entry (%d ns after the request was issued), expected %d ns from arrival", tv, got, slack, want)
		}
	}
	if l := s.env.serverLog(); strings.Contains(l, "panic serving") {
		s.violate("C09", "C09|http|server-panic", -1, "the HTTP server panicked: %s", trunc(l, 800))
	}
}

func classifyTimeout(tv string) string {
	if tv == "" {
		return "empty"
	}
	u := tv[len(tv)-1]
	d := len(tv) - 1
	switch {
	case !wireTimeout.MatchString(tv):
		return "malformed"
	case d <= 8:
		return fmt.Sprintf("unit-%c-wire-format", u)
	}
	return fmt.Sprintf("unit-%c-over-long", u)
}

// ---------------------------------------------------------------------------
// C11: the HTTP server's gatekeeping

var ctVariants = []string{
	httpgrpc.UnaryRpcContentType_V1, httpgrpc.StreamRpcContentType_V1, httpgrpc.ApplicationJson,
	"application/x-protobuf; charset=utf-8", "Application/X-Protobuf", "application/x-httpgrpc-proto+v1;q=1", "APPLICATION/JSON; charset=UTF-8",
	"", "text/plain", "application/x-protobuf2", "application/grpc", "application/x-httpgrpc-proto+v2", "application/json+x", "application/x-protobuf;;;", ";", "a/b/c",
}

// genC11jsonPair: several overlapping JSON unary calls with replies larger
// than the server's write buffer and a slow reader, so that one reply is still
// being written while the next is being encoded.
func genC11jsonPair(g *gen, seed int64) *Program {
	p := &Program{Profile: "c11", Seed: seed}
	p.Cfg.Policy = g.pick(3)
	p.Cfg.Frag = g.pick(4)
	p.Cfg.SendBuf = []int{64, 512, 4096}[g.pick(3)]
	p.Cfg.UseHandle = g.p(0.3)
	n := 2 + g.pick(2)
	for id := 0; id < n; id++ {
		r := &RPC{ID: id, Transport: THTTP, Kind: KUnary, Svc: "sim.S", Meth: fmt.Sprintf("M%d", id), RawClient: true}
		r.Call = "/" + r.Svc + "/" + r.Meth
		msg := g.msg()
		if msg.Size > 300 {
			msg.Size = 300
		}
		r.ReqSpec = msg
		ct := httpgrpc.ApplicationJson
		if g.p(0.25) {
			ct = httpgrpc.UnaryRpcContentType_V1 // a protobuf call in between
		}
		rq := &RawReq{Method: "POST", Path: r.Call, Hdrs: []KV{{K: "Content-Type", V: RawStr(ct)}}}
		if ct == httpgrpc.ApplicationJson {
			jb, _ := protojson.Marshal(msg.Build())
			rq.Body, rq.Note = RawStr(jb), "json"
		} else {
			rq.Body, rq.Note = RawStr(mustMarshal(msg.Build())), "proto"
		}
		r.Client = []Op{{K: "raw", Raw: rq}}
		ret := g.msg()
		ret.Kind = 0
		ret.Size = 3000 + g.pick(9000)
		if ret.Size > 150*p.Cfg.SendBuf {
			ret.Size = 150 * p.Cfg.SendBuf
		}
		r.Handler = []Op{{K: "decode"}, {K: "return", Msg: ret}}
		// a handler written against dynamic messages (no generated code)
		r.DynH = g.p(0.3)
		if g.p(0.12) {
			// a handler that returns neither a response nor an error
			r.Handler = []Op{{K: "decode"}, {K: "return", N: 1 + g.pick(2)}}
		}
		p.RPCs = append(p.RPCs, r)
	}
	return p
}

func genC11(g *gen, seed int64) *Program {
	if g.p(0.07) {
		return genC11jsonPair(g, seed)
	}
	p := &Program{Profile: "c11", Seed: seed}
	p.Cfg.Policy = g.pick(3)
	p.Cfg.NetEager = g.p(0.5)
	p.Cfg.Frag = g.pick(4)
	p.Cfg.UseHandle = g.p(0.3)
	p.Cfg.Renderer = g.pick(3)
	// sometimes a slow reader: the server blocks while writing a large reply
	// and other requests are served meanwhile
	p.Cfg.SendBuf = []int{0, 0, 0, 64, 512, 4096}[g.pick(6)]
	n := 1 + g.pick(2)
	if p.Cfg.SendBuf > 0 && g.p(0.5) {
		n = 2 + g.pick(2)
	}
	for id := 0; id < n; id++ {
		r := &RPC{ID: id, Transport: THTTP, Svc: "sim.S", Meth: fmt.Sprintf("M%d", id), RawClient: true}
		r.Call = "/" + r.Svc + "/" + r.Meth
		r.Kind = []int{KUnary, KUnary, KServerStream, KClientStream, KBidi}[g.pick(5)]
		rq := &RawReq{Method: "POST", Path: r.Call}
		if g.p(0.35) {
			rq.Method = []string{"GET", "PUT", "post", "PATCH", "DELETE", "HEAD", "OPTIONS", "POSTX"}[g.pick(8)]
		}
		if g.p(0.2) {
			rq.Path = []string{"/sim.S/nope", "/sim.S/" + r.Meth + "x", "/sim.S", "/", "/sim.S/" + r.Meth + "/", "/sim.s/" + r.Meth, "/other.S/" + r.Meth, r.Call + "/extra"}[g.pick(8)]
		}
		ct := httpgrpc.UnaryRpcContentType_V1
		if r.Kind != KUnary {
			ct = httpgrpc.StreamRpcContentType_V1
		}
		if g.p(0.45) {
			ct = ctVariants[g.pick(len(ctVariants))]
		}
		rq.Hdrs = append(rq.Hdrs, KV{K: "Content-Type", V: RawStr(ct)})
		if g.p(0.3) {
			rq.Hdrs = append(rq.Hdrs, g.rawMD()...)
		}
		if g.p(0.15) {
			rq.Hdrs = append(rq.Hdrs, KV{K: "Bad-Bin", V: RawStr([]string{"!!!", "a", "====", "Zm9v!", "Zm9"}[g.pick(5)])})
		}
		if g.p(0.15) {
			rq.Hdrs = append(rq.Hdrs, KV{K: "GRPC-Timeout", V: RawStr([]string{"5S", "x", "", "99999999H", "-1S", "1"}[g.pick(6)])})
		}
		if g.p(0.12) {
			// the client holds the body back until the server says "100 Continue"
			// or answers (it gives up waiting after an hour of virtual time)
			rq.Hdrs = append(rq.Hdrs, KV{K: "Expect", V: "100-continue"})
		}
		rq.Chunked = g.p(0.3)
		// body
		msg := g.msg()
		if msg.Size > 300 {
			msg.Size = 300
		}
		r.ReqSpec = msg
		enc := mustMarshal(msg.Build())
		isJSON := strings.HasPrefix(strings.ToLower(ct), "application/json") && !strings.Contains(ct, "+")
		switch x := g.rng.Float64(); {
		case x < 0.6: // well-formed for the registered kind
			switch {
			case isJSON:
				jb, _ := protojson.Marshal(msg.Build())
				rq.Body = RawStr(jb)
				rq.Note = "json"
			case r.Kind == KUnary:
				rq.Body = RawStr(enc)
				rq.Note = "proto"
			default:
				nreq := 1
				if r.Kind == KClientStream || r.Kind == KBidi {
					nreq = g.pick(4)
				} else if g.p(0.25) {
					nreq = []int{0, 2, 3}[g.pick(3)]
				}
				var b []byte
				for i := 0; i < nreq; i++ {
					b = append(b, refFrame(enc, false)...)
				}
				rq.Body = RawStr(b)
				rq.Note = fmt.Sprintf("frames:%d", nreq)
			}
		case x < 0.68 && r.Kind != KUnary:
			// well-formed frames, then the body ends (cleanly, as far as HTTP is
			// concerned) somewhere inside them
			var b []byte
			for i := 0; i < 1+g.pick(3); i++ {
				b = append(b, refFrame(enc, false)...)
			}
			cut := g.pick(len(b) + 1)
			rq.Body = RawStr(b[:cut])
			rq.Note = fmt.Sprintf("truncated:%d/%d", cut, len(b))
		case x < 0.75:
			rq.Body = ""
			rq.Note = "empty"
		case x < 0.9:
			b := make([]byte, 1+g.pick(30))
			for i := range b {
				b[i] = byte(g.pick(256))
			}
			rq.Body = RawStr(b)
			rq.Note = "garbage"
		default:
			a := adversarial[g.pick(len(adversarial))]
			rq.Body = RawStr(a.body)
			rq.Note = "adversarial:" + a.note
		}
		r.Client = []Op{{K: "raw", Raw: rq}}
		// handler with any outcome
		switch r.Kind {
		case KUnary:
			r.Handler = []Op{{K: "decode"}}
			if g.p(0.4) {
				r.Handler = append(r.Handler, g.hdrOp())
			}
			ret := Op{K: "return", St: g.maybeStatus(), Msg: g.msg()}
			if ret.Msg != nil && ret.Msg.Kind != 1 && g.p(0.25) {
				ret.Msg.Size = 5000 + g.pick(20000) // larger than net/http's write buffer
				if p.Cfg.SendBuf > 0 && ret.Msg.Size > 200*p.Cfg.SendBuf {
					ret.Msg.Size = 200 * p.Cfg.SendBuf
				}
			}
			r.Handler = append(r.Handler, ret)
		case KServerStream:
			r.Handler = []Op{{K: "recv"}}
			for i := 0; i < g.pick(3); i++ {
				r.Handler = append(r.Handler, Op{K: "send", Msg: g.msg()})
			}
			if g.p(0.4) {
				r.Handler = append(r.Handler, Op{K: "settlr", MD: g.md(2)})
			}
			r.Handler = append(r.Handler, Op{K: "return", St: g.maybeStatus()})
		default:
			r.Handler = []Op{{K: "recvall"}}
			for i := 0; i < g.pick(3); i++ {
				r.Handler = append(r.Handler, Op{K: "send", Msg: g.msg()})
			}
			r.Handler = append(r.Handler, Op{K: "return", St: g.maybeStatus()})
		}
		if r.Kind != KUnary && g.p(0.15) {
			// turned down, or answered, before the request stream is looked at
			// (an authorising interceptor; a handler that needs no input)
			r.Handler = []Op{{K: "return", St: g.maybeStatus()}}
			if g.p(0.3) {
				r.Handler = []Op{{K: "sendhdr", MD: g.md(2)}, {K: "recvall"}, {K: "return", St: g.maybeStatus()}}
			}
		}
		r.StopOnErr = g.p(0.7)
		p.RPCs = append(p.RPCs, r)
	}
	if p.Cfg.SendBuf > 0 {
		for _, r := range p.RPCs {
			for i := range r.Handler {
				if m := r.Handler[i].Msg; m != nil && m.Size > 200*p.Cfg.SendBuf {
					m.Size = 200 * p.Cfg.SendBuf
				}
			}
		}
	}
	if len(p.RPCs) == 2 && g.p(0.5) {
		// state carried across requests: the second request is sent after the
		// first has been answered, often with the very same Content-Type
		// string to a method of the other kind
		a, b := p.RPCs[0], p.RPCs[1]
		b.After = 1
		if g.p(0.6) {
			var act string
			for _, kv := range a.Client[0].Raw.Hdrs {
				if kv.K == "Content-Type" {
					act = string(kv.V)
				}
			}
			for i, kv := range b.Client[0].Raw.Hdrs {
				if kv.K == "Content-Type" {
					b.Client[0].Raw.Hdrs[i].V = RawStr(act)
				}
			}
			// a body that is well-formed for the new content type
			rq := b.Client[0].Raw
			enc := mustMarshal(b.ReqSpec.Build())
			switch {
			case strings.HasPrefix(strings.ToLower(act), "application/json") && !strings.Contains(act, "+"):
				jb, _ := protojson.Marshal(b.ReqSpec.Build())
				rq.Body, rq.Note = RawStr(jb), "json"
			case b.Kind == KUnary:
				rq.Body, rq.Note = RawStr(enc), "proto"
			default:
				rq.Body, rq.Note = RawStr(refFrame(enc, false)), "frames:1"
			}
		}
	}
	return p
}

// rawMD returns well-formed metadata as HTTP headers ('-bin' values base64).
func (g *gen) rawMD() []KV {
	var out []KV
	for _, kv := range g.md(3) {
		v := string(kv.V)
		if strings.HasSuffix(kv.K, "-bin") {
			v = base64.URLEncoding.EncodeToString([]byte(v))
		}
		out = append(out, KV{K: http.CanonicalHeaderKey(kv.K), V: RawStr(v)})
	}
	return out
}

func supportedCT(ct string, kind int) (ok bool, json bool) {
	// reference reading of the documented content types: media type compared
	// case-insensitively, parameters ignored
	mt := strings.ToLower(strings.TrimSpace(strings.SplitN(ct, ";", 2)[0]))
	if kind == KUnary {
		return mt == httpgrpc.UnaryRpcContentType_V1 || mt == httpgrpc.ApplicationJson, mt == httpgrpc.ApplicationJson
	}
	return mt == httpgrpc.StreamRpcContentType_V1, false
}

func oracleC11(s *Sim) {
	if s.prog.Profile != "c11" {
		return
	}
	for _, v := range s.views() {
		var raw *Event
		var rq *RawReq
		for _, ev := range v.ev {
			if ev.Op == "raw" {
				raw = ev
			}
		}
		for _, op := range v.r.Client {
			if op.Raw != nil {
				rq = op.Raw
			}
		}
		if raw == nil || rq == nil || raw.RSeq == 0 {
			continue
		}
		s.stats.Probes["C11-relevant"]++
		if raw.Err.Class == "panic" {
			v.fail("C11", "raw-peer-panic", "%s", raw.Err.Text)
			continue
		}
		if raw.Flags["status"] == "" {
			if strings.Contains(raw.Err.Text, "invalid header field") || strings.Contains(raw.Err.Text, "invalid method") {
				continue // the client-side transport refused to send it
			}
			clause := "no-answer"
			if strings.Contains(raw.Err.Text, "malformed MIME header") {
				clause = "malformed-reply-header"
				if strings.Contains(raw.Err.Text, "X-Grpc-Status") {
					clause += "|X-Grpc-Status"
				}
			}
			v.fail("C11", clause, "%s %s: no usable reply (%s)", rq.Method, rq.Path, raw.Err)
			continue
		}
		st, _ := strconv.Atoi(raw.Flags["status"])
		if !raw.Err.IsNil() || s.stats.HitCap {
			// the reply body was not read to its end (the run was torn down
			// first): nothing can be said about its content
			continue
		}
		ct := ""
		badHdr := false
		for _, kv := range rq.Hdrs {
			if kv.K == "Content-Type" {
				ct = string(kv.V)
			}
			if strings.HasSuffix(strings.ToLower(kv.K), "-bin") {
				if _, err := base64.URLEncoding.DecodeString(string(kv.V)); err != nil {
					badHdr = true
				}
			}
		}
		knownPath := rq.Path == v.r.Call
		okCT, isJSON := supportedCT(ct, v.r.Kind)
		// media types that only differ from a supported one by what mime.ParseMediaType rejects are "unknown": either answer is fine
		ambiguousCT := strings.Contains(ct, ";;") || strings.TrimSpace(ct) == ";" || strings.Count(ct, "/") > 1
		valid := knownPath && rq.Method == "POST" && okCT && !badHdr
		entered := v.rs.handlerEntered
		if entered > 1 {
			v.fail("C11", "handler-ran-more-than-once", "%s %s: the handler ran %d times for one request", rq.Method, rq.Path, entered)
		}
		if !valid && entered > 0 && !ambiguousCT {
			v.fail("C11", "handler-ran-for-invalid-request|"+invalidWhy(knownPath, rq.Method, okCT, badHdr), "%s %s content-type %q bad-header %v: the handler ran although the request is not valid", rq.Method, rq.Path, ct, badHdr)
		}
		if valid && entered == 0 && !ambiguousCT {
			v.fail("C11", "valid-request-rejected", "POST %s content-type %q: the handler did not run; HTTP status %d", rq.Path, ct, st)
		}
		expects := false
		for _, kv := range rq.Hdrs {
			if kv.K == "Expect" {
				expects = true
			}
		}
		if expects && entered > 0 && raw.RT-raw.T >= int64(time.Hour) {
			// accepted, handler ran - and still the exchange only finished once
			// the client had given up waiting for "100 Continue" or the end of
			// the reply and sent its body anyway
			v.fail("C11", fmt.Sprintf("reply-not-finished-until-body-sent|%d", st), "%s %s with Expect: 100-continue: the request was accepted and the handler ran, but the client got neither \"100 Continue\" nor a complete reply until it gave up waiting and sent its body (%s later)", rq.Method, rq.Path, time.Duration(raw.RT-raw.T))
		}
		if expects && entered == 0 && raw.RT-raw.T >= int64(time.Hour) {
			// the client waited for "100 Continue" or an answer and got neither
			// until it gave up (an hour later) and sent the body after all
			v.fail("C11", fmt.Sprintf("refusal-withheld-until-body-sent|%d", st), "%s %s with Expect: 100-continue: the request was refused (%d), but the answer only came once the client had given up waiting and sent its body anyway (%s later)", rq.Method, rq.Path, st, time.Duration(raw.RT-raw.T))
		}
		if !valid && !ambiguousCT {
			allowed := map[int]bool{}
			if !knownPath {
				allowed[404] = true
				allowed[301] = true
				allowed[307] = true
				allowed[308] = true
				if rq.Method == "POSTX" || rq.Method == "post" {
					allowed[400] = true
					allowed[405] = true
					allowed[501] = true
				}
			} else {
				if rq.Method != "POST" {
					allowed[405] = true
				}
				if !okCT {
					allowed[415] = true
				}
				if badHdr {
					allowed[400] = true
				}
			}
			if !allowed[st] {
				v.fail("C11", fmt.Sprintf("wrong-rejection-status|%s|got-%d", invalidWhy(knownPath, rq.Method, okCT, badHdr), st), "%s %s content-type %q bad-header %v: answered %d, expected one of %v", rq.Method, rq.Path, ct, badHdr, st, keysOf(allowed))
			}
			continue
		}
		if !valid || v.hStart == nil {
			continue
		}
		// valid request: what the handler saw and what came back
		if v.r.Kind == KUnary {
			wellFormed := rq.Note == "proto" || rq.Note == "json"
			decoded := len(v.hRecv) > 0 && v.hRecv[0].Err.IsNil()
			if wellFormed && len(v.hRecv) > 0 {
				if !decoded {
					v.fail("C11", "well-formed-request-not-decoded|"+rq.Note, "the %s encoding of the request did not decode: %s", rq.Note, v.hRecv[0].Err)
				} else if !msgEqual(v.hRecv[0].GotMsg, v.r.ReqSpec) {
					v.fail("C11", "request-decoded-wrong|"+rq.Note, "the handler decoded %s from the %s encoding of tag %d", v.hRecv[0].Got, rq.Note, v.r.ReqSpec.Tag)
				}
			}
			if len(v.hRecv) > 0 && !v.hRecv[0].Err.IsNil() {
				// undecodable request: InvalidArgument reaches the caller
				gs := raw.Flags["grpc-status"]
				if !strings.HasPrefix(gs, "3:") && v.hReturn != nil && v.hReturn.Err.Code == int32(codes.InvalidArgument) {
					v.fail("C11", "undecodable-request-not-invalid-argument", "undecodable unary body (%s): X-GRPC-Status %q, HTTP %d", rq.Note, gs, st)
				}
				if v.hRecv[0].Err.Code != int32(codes.InvalidArgument) {
					v.fail("C11", "undecodable-request-wrong-code", "undecodable unary body (%s): the decode callback returned %s, expected InvalidArgument", rq.Note, v.hRecv[0].Err)
				}
			}
			if decoded && v.hReturn != nil && v.hReturn.Err.IsNil() && len(v.hSend) == 0 && st == 200 {
				// neither a response nor an error: never a success, whatever the encoding
				v.fail("C11", "nil-response-answered-200|json="+fmt.Sprint(isJSON), "the handler returned a nil response and a nil error; the server answered 200 with a body of %d bytes (%q)", len(raw.RawBody), trunc(string(raw.RawBody), 40))
				v.fail("C08", "no-response-reported-as-success|json="+fmt.Sprint(isJSON), "the handler returned a nil response and a nil error; the server answered 200 with a body of %d bytes", len(raw.RawBody))
			}
			if decoded && v.hReturn != nil && v.hReturn.Err.IsNil() && len(v.hSend) == 1 && v.hSend[0].Msg.Kind != 4 {
				// the reply body is the response in the request's encoding
				if st != 200 {
					v.fail("C11", "success-with-wrong-http-status", "handler succeeded, HTTP status %d", st)
				} else {
					got := &grpchantesting.Message{}
					var err error
					if isJSON {
						err = protojson.UnmarshalOptions{DiscardUnknown: true}.Unmarshal(raw.RawBody, got)
					} else {
						err = proto.Unmarshal(raw.RawBody, got)
					}
					if err != nil || !proto.Equal(got, v.hSend[0].Msg.Build()) {
						v.fail("C11", "unary-reply-body-wrong|json="+fmt.Sprint(isJSON), "reply body (%d bytes, json=%v) does not decode to the handler's response (err %v)", len(raw.RawBody), isJSON, err)
					}
				}
			}
			continue
		}
		// streaming: a 200 reply ends with exactly one trailer frame and nothing after it
		if st == 200 {
			frames, trailers, rest, ok := splitFrames(raw.RawBody)
			if !ok || trailers != 1 || rest != 0 {
				if !(v.hReturn != nil && v.wireLimit() != "") {
					v.fail("C11", "malformed-streaming-reply", "streaming reply of %d bytes: %d data frames, %d trailer frames, %d bytes after the trailer, well-formed=%v", len(raw.RawBody), frames, trailers, rest, ok)
				}
			}
		} else if v.hStart != nil {
			v.fail("C11", "streaming-reply-not-200", "the stream handler ran but the HTTP status is %d", st)
		}
		// single-request kinds reject a second request message
		if v.r.Kind == KServerStream && strings.HasPrefix(rq.Note, "frames:") && len(v.hRecv) > 0 {
			nreq, _ := strconv.Atoi(rq.Note[7:])
			first := v.hRecv[0]
			if nreq >= 2 && first.Err.IsNil() {
				v.fail("C08", "second-request-accepted", "client sent %d request messages to a single-request method; the handler's receive returned nil", nreq)
				v.fail("C11", "second-request-accepted", "client sent %d request messages to a single-request method; the handler's receive returned nil", nreq)
			}
			if nreq == 1 && !first.Err.IsNil() {
				v.fail("C11", "single-request-rejected", "one well-formed request message: the handler's receive returned %s", first.Err)
			}
		}
	}
	if l := s.env.serverLog(); strings.Contains(l, "panic serving") {
		s.violate("C11", "C11|http|server-panic", -1, "the HTTP server panicked: %s", trunc(l, 800))
	}
}

func invalidWhy(knownPath bool, method string, okCT, badHdr bool) string {
	var w []string
	if !knownPath {
		w = append(w, "unknown-path")
	}
	if method != "POST" {
		w = append(w, "method")
	}
	if !okCT {
		w = append(w, "content-type")
	}
	if badHdr {
		w = append(w, "bad-bin-header")
	}
	return strings.Join(w, "+")
}

func keysOf(m map[int]bool) []int {
	var out []int
	for k := range m {
		out = append(out, k)
	}
	return out
}

// splitFrames is the reference reading of a streaming reply body.
func splitFrames(b []byte) (frames, trailers, rest int, ok bool) {
	for len(b) > 0 {
		if len(b) < 4 {
			return frames, trailers, len(b), false
		}
		n := int32(uint32(b[0])<<24 | uint32(b[1])<<16 | uint32(b[2])<<8 | uint32(b[3]))
		b = b[4:]
		if n < 0 {
			k := int(-int64(n))
			if k > len(b) {
				return frames, trailers, len(b), false
			}
			var tr httpgrpc.HttpTrailer
			if proto.Unmarshal(b[:k], &tr) != nil {
				return frames, trailers, len(b), false
			}
			trailers++
			return frames, trailers, len(b) - k, true
		}
		if int(n) > len(b) {
			return frames, trailers, len(b), false
		}
		frames++
		b = b[n:]
	}
	return frames, trailers, 0, true
}

// ---------------------------------------------------------------------------
// C14: status codes across the unary HTTP mapping. The documented table of
// DefaultErrorRenderer, transcribed from its doc comment.

var docTable = map[codes.Code]int{
	codes.Canceled: 502, codes.Unknown: 500, codes.InvalidArgument: 400, codes.DeadlineExceeded: 504, codes.NotFound: 404,
	codes.AlreadyExists: 409, codes.PermissionDenied: 403, codes.Unauthenticated: 401, codes.ResourceExhausted: 429,
	codes.FailedPrecondition: 412, codes.Aborted: 409, codes.OutOfRange: 422, codes.Unimplemented: 501, codes.Internal: 500,
	codes.Unavailable: 503, codes.DataLoss: 500,
}

func genC14(g *gen, seed int64) *Program {
	p := &Program{Profile: "c14", Seed: seed}
	p.Cfg.Policy = g.pick(3)
	p.Cfg.NetEager = g.p(0.6)
	p.Cfg.Renderer = []int{0, 0, 0, 1, 2}[g.pick(5)]
	p.Cfg.UseHandle = g.p(0.3)
	r := &RPC{ID: 0, Transport: THTTP, Kind: KUnary, Svc: "sim.S", Meth: "M0", Call: "/sim.S/M0"}
	// enumeration index from the seed: codes 0..16 and out-of-range values, x cancelled or not
	codeList := []int32{0, 1, 2, 3, 4, 5, 6, 7, 8, 9, 10, 11, 12, 13, 14, 15, 16, 17, 20, 99, 1000, 2147483647, -1}
	idx := int(seed % int64(len(codeList)*2))
	if idx < 0 {
		idx = -idx
	}
	code := codeList[idx%len(codeList)]
	cancelled := idx >= len(codeList)
	if g.p(0.5) {
		// through the proxy seam: a header-less reply with an arbitrary HTTP status
		p.Cfg.ProxyMode = 2
		st := 100 + int(seed%500)
		if st < 100 {
			st += 500
		}
		// the body is alternately empty (decodes to an empty message), a valid
		// encoding, and garbage: with a decodable body only the status decides
		body := []string{"", string(mustMarshal((&MsgSpec{Tag: 5, Size: 6}).Build())), "x"}[g.pick(3)]
		p.Canned = &Canned{Status: st, NoGRPC: true, Raw: RawStr(body), RawNote: fmt.Sprintf("HTTP %d without X-GRPC-Status", st)}
		r.Client = []Op{{K: "invoke", Msg: g.msg()}}
		r.Handler = []Op{{K: "decode"}, {K: "return", Msg: g.msg()}}
		p.RPCs = []*RPC{r}
		return p
	}
	useRaw := g.p(0.5)
	r.Handler = []Op{{K: "decode"}}
	serverTimeout := false
	if !cancelled && (code == 1 || code == 4) && g.p(0.7) {
		// only the propagated GRPC-Timeout elapses; the client never cancels
		serverTimeout, useRaw = true, true
	}
	if cancelled || serverTimeout {
		r.Handler = append(r.Handler, Op{K: "waitctx"})
	}
	ret := Op{K: "return", Msg: g.msg()}
	if code != 0 {
		ret.St = &StatusSpec{Code: code, Msg: "m"}
		ret.Msg = nil
	}
	r.Handler = append(r.Handler, ret)
	if useRaw {
		r.RawClient = true
		hd := []KV{{K: "Content-Type", V: RawStr(httpgrpc.UnaryRpcContentType_V1)}}
		if serverTimeout {
			hd = append(hd, KV{K: "GRPC-Timeout", V: RawStr(fmt.Sprintf("%dm", 5+g.pick(200)))})
		}
		r.Client = []Op{{K: "raw", Raw: &RawReq{Method: "POST", Path: r.Call, Hdrs: hd, Body: RawStr(mustMarshal((&MsgSpec{Tag: 1, Size: 2}).Build()))}}}
	} else {
		r.Client = []Op{{K: "invoke", Msg: g.msg()}}
	}
	if cancelled {
		p.Faults = append(p.Faults, Fault{Kind: "cancel", RPC: 0, Step: 30 + g.pick(60)})
	}
	p.RPCs = []*RPC{r}
	return p
}

func oracleC14(s *Sim) {
	if s.prog.Profile != "c14" {
		return
	}
	for _, v := range s.views() {
		if c := s.prog.Canned; c != nil && c.NoGRPC {
			// header-less reply: OK iff 2xx
			if v.invoke == nil || v.invoke.RSeq == 0 {
				continue
			}
			s.stats.Probes["C14-relevant"]++
			code, _ := v.invoke.Err.ViaConvert()
			is2xx := c.Status >= 200 && c.Status < 300
			gotOK := v.invoke.Err.Class == "nil" || (v.invoke.Err.Class == "status" && code == codes.OK)
			// a 2xx reply with an undecodable body may still fail to decode: only the code derivation is judged
			if !is2xx && (v.invoke.Err.IsNil() || code == codes.OK) {
				v.fail("C14", fmt.Sprintf("non-2xx-gives-OK|%dxx", c.Status/100), "HTTP %d without X-GRPC-Status: caller got %s", c.Status, v.invoke.Err)
			}
			if is2xx && v.invoke.Err.Class == "status" && code != codes.OK && !strings.Contains(v.invoke.Err.Msg, "proto") {
				v.fail("C14", "2xx-gives-error", "HTTP %d without X-GRPC-Status: caller got %s", c.Status, v.invoke.Err)
			}
			_ = gotOK
			continue
		}
		if v.hReturn == nil {
			continue
		}
		h := v.hReturn.Err
		if h.Class != "status" && h.Class != "nil" {
			continue
		}
		s.stats.Probes["C14-relevant"]++
		code := codes.Code(uint32(h.Code))
		reqCancelled := v.ctxSeq != 0 && v.ctxSeq < v.hReturn.Seq && v.rs.ctxCause != "end"
		// wire status of the server's reply
		var raw *Event
		for _, ev := range v.ev {
			if ev.Op == "raw" {
				raw = ev
			}
		}
		if raw != nil && raw.RSeq != 0 && raw.Flags["status"] != "" {
			st, _ := strconv.Atoi(raw.Flags["status"])
			s.stats.Probes["c14-wire-status-seen"]++
			if h.Class == "nil" {
				if st != 200 {
					v.fail("C14", "ok-not-200", "handler succeeded, HTTP status %d", st)
				}
			} else if s.prog.Cfg.Renderer == 0 {
				want := 500
				if w, ok := docTable[code]; ok {
					want = w
				}
				if st < 400 {
					v.fail("C14", fmt.Sprintf("error-code-with-success-status|%s", code), "code %s rendered as HTTP %d", code, st)
				} else if st != want && !(st == 499 && (code == codes.Canceled || code == codes.DeadlineExceeded) && reqCancelled) {
					v.fail("C14", fmt.Sprintf("table-mismatch|%s|got-%d", code, st), "code %s rendered as HTTP %d, the documented table says %d", code, st, want)
				}
				if st == 499 && !(code == codes.Canceled || code == codes.DeadlineExceeded) {
					v.fail("C14", fmt.Sprintf("499-for-other-code|%s", code), "code %s rendered as 499", code)
				}
			}
			if done := raw.MD["x-req-ctx-done"]; len(done) > 0 && done[0] == "true" && !reqCancelled {
				v.fail("C14", "renderer-given-a-done-context", "the error renderer was given a request context that is done although the client never cancelled the request")
			}
			gs := raw.Flags["grpc-status"]
			if h.Class == "status" && !strings.HasPrefix(gs, fmt.Sprintf("%d:", h.Code)) && !strings.HasPrefix(gs, fmt.Sprintf("%d:", uint32(h.Code))) && h.Code != 0 {
				v.fail("C14", "grpc-status-header-wrong", "handler returned code %d, X-GRPC-Status is %q", h.Code, gs)
			}
		}
		// the caller recovers exactly the original code
		if v.invoke != nil && v.invoke.RSeq != 0 && !v.disturbedBefore(v.invoke.RSeq) {
			got, _ := v.invoke.Err.ViaConvert()
			if h.Class == "status" && h.Code != 0 && got != code {
				v.fail("C14", fmt.Sprintf("caller-code-differs|%s|renderer-%d", code, s.prog.Cfg.Renderer), "handler returned %s, caller got %s", code, v.invoke.Err)
			}
			if h.Class == "nil" && !v.invoke.Err.IsNil() {
				v.fail("C14", "caller-error-for-ok", "handler succeeded, caller got %s", v.invoke.Err)
			}
		}
		// the 499 rule, observed on the wire: what the server wrote (or tried to write)
		if ws := s.wireReplyStatus(v.r.ID); ws != 0 && s.prog.Cfg.Renderer == 0 && h.Class == "status" {
			s.stats.Probes["c14-wire-status-seen"]++
			isCtxCode := code == codes.Canceled || code == codes.DeadlineExceeded
			if ws == 499 && !isCtxCode {
				v.fail("C14", fmt.Sprintf("499-for-other-code|%s", code), "code %s rendered as 499", code)
			}
			if ws == 499 && !reqCancelled {
				v.fail("C14", "499-without-cancelled-request", "code %s rendered as 499 although the request was never cancelled", code)
			}
			if ws < 400 && h.Code != 0 {
				v.fail("C14", fmt.Sprintf("error-code-with-success-status|%s", code), "code %s: the server wrote HTTP %d", code, ws)
			}
			if want, ok := docTable[code]; ok && ws != want && ws != 499 {
				v.fail("C14", fmt.Sprintf("table-mismatch|%s|got-%d", code, ws), "code %s: the server wrote HTTP %d, the documented table says %d", code, ws, want)
			}
			if isCtxCode && reqCancelled && s.handlerCtxDoneAtReturn(v) && ws != 499 {
				v.fail("C14", fmt.Sprintf("cancelled-request-not-499|%s|got-%d", code, ws), "code %s with the request's own context ended: the server wrote HTTP %d, expected 499", code, ws)
			}
		}
	}
}

// handlerCtxDoneAtReturn: the handler waited for its context before returning.
func (s *Sim) handlerCtxDoneAtReturn(v *view) bool {
	for _, ev := range v.ev {
		if ev.Side == 'h' && ev.Op == "waitctx" && ev.RSeq != 0 && strings.HasPrefix(ev.Note, "ctx:") {
			return true
		}
	}
	return false
}

var statusLine = regexp.MustCompile(`HTTP/1\.[01] ([0-9]{3}) `)

// wireReplyStatus returns the status of the last HTTP reply the server wrote
// (or tried to write) on a connection that carried the RPC's request, 0 if none.
func (s *Sim) wireReplyStatus(id int) int {
	s.mu.Lock()
	conns := append([]*connPair(nil), s.conns...)
	s.mu.Unlock()
	for _, p := range conns {
		on := false
		for _, x := range s.rpcsOnConn(p) {
			if x == id {
				on = true
			}
		}
		if !on {
			continue
		}
		p.s2c.mu.Lock()
		rec := string(p.s2c.wrote)
		p.s2c.mu.Unlock()
		m := statusLine.FindAllStringSubmatch(rec, -1)
		if len(m) == 0 {
			continue
		}
		st, _ := strconv.Atoi(m[len(m)-1][1])
		return st
	}
	return 0
}

// ---------------------------------------------------------------------------
// C07, server side: the request-stream decoder fed by the raw peer. Whatever
// bytes a foreign client sends as the body of a streaming request, the
// handler's receives yield exactly the messages framed in it, in order, and a
// clean end of stream (io.EOF) only if the body is exactly a sequence of
// complete frames.

func init() { extraOracles = append(extraOracles, oracleC07server) }

// refDecodeReq is the reference reading of a request body: the payloads of the
// complete data frames at its start, and whether the body consists of nothing
// but complete data frames.
func refDecodeReq(b []byte) (frames [][]byte, clean bool) {
	for len(b) > 0 {
		if len(b) < 4 {
			return frames, false
		}
		n := int32(uint32(b[0])<<24 | uint32(b[1])<<16 | uint32(b[2])<<8 | uint32(b[3]))
		if n < 0 || int(n) > len(b)-4 {
			return frames, false
		}
		frames = append(frames, b[4:4+n])
		b = b[4+n:]
	}
	return frames, true
}

func oracleC07server(s *Sim) {
	if s.prog.Profile != "c11" {
		return
	}
	for _, v := range s.views() {
		if v.r.Kind == KUnary || v.hStart == nil {
			continue
		}
		var rq *RawReq
		for _, op := range v.r.Client {
			if op.Raw != nil {
				rq = op.Raw
			}
		}
		if rq == nil {
			continue
		}
		s.stats.Probes["C07-relevant"]++
		for _, ev := range v.ev {
			if ev.Side == 'h' && ev.Err != nil && ev.Err.Class == "panic" {
				v.fail("C07", "server-decoder-panic", "handler-side %s panicked on request body (%s): %s", ev.Op, rq.Note, ev.Err.Text)
			}
		}
		frames, clean := refDecodeReq([]byte(rq.Body))
		i := 0
		for _, rv := range v.hRecv {
			if rv.RSeq == 0 {
				break
			}
			switch {
			case rv.Err.IsNil():
				if i >= len(frames) {
					v.fail("C07", "server-fabricated-message", "request body (%s, %d bytes) frames %d messages, but the handler's receive #%d returned a message (%s)", rq.Note, len(rq.Body), len(frames), i, rv.Got)
					return
				}
				want := &grpchantesting.Message{}
				if err := proto.Unmarshal(frames[i], want); err != nil || !proto.Equal(want, rv.GotMsg) {
					v.fail("C07", "server-wrong-message", "request body (%s): the handler's receive #%d returned %s, frame %d holds other content (decodes: %v)", rq.Note, i, rv.Got, i, err == nil)
					return
				}
				i++
				continue
			case rv.Err.IsEOF():
				if v.r.Kind == KServerStream {
					// single-request method: a later receive always yields io.EOF
					if i == 0 && len(frames) > 0 {
						v.fail("C07", "server-clean-end-with-unread-frames", "request body (%s) frames %d messages but the handler's first receive returned io.EOF", rq.Note, len(frames))
					}
					if i == 0 && len(frames) == 0 && !clean {
						v.fail("C07", "server-unclean-end-as-EOF", "request body (%s, %d bytes) is not a sequence of complete frames, yet the handler's receive reports a clean end of stream (io.EOF)", rq.Note, len(rq.Body))
					}
				} else {
					if i < len(frames) {
						v.fail("C07", "server-clean-end-with-unread-frames", "request body (%s) frames %d messages but the handler saw a clean end (io.EOF) after %d", rq.Note, len(frames), i)
					} else if !clean {
						v.fail("C07", "server-unclean-end-as-EOF", "request body (%s, %d bytes) ends inside a frame or holds an invalid size preface after %d complete frames, yet the handler's receive reports a clean end of stream (io.EOF)", rq.Note, len(rq.Body), i)
					}
				}
			}
			break
		}
	}
}


// requestSentAt: the virtual time at which the first byte of the connection
// that carries (only) this call's request was written.
func (s *Sim) requestSentAt(id int) (int64, bool) {
	s.mu.Lock()
	conns := append([]*connPair(nil), s.conns...)
	s.mu.Unlock()
	for _, p := range conns {
		on := s.rpcsOnConn(p)
		if len(on) == 1 && on[0] == id {
			p.c2s.mu.Lock()
			t := p.c2s.firstWriteT
			p.c2s.mu.Unlock()
			if t >= 0 {
				return t, true
			}
		}
	}
	return 0, false
}
