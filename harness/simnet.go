package sim

import (
	"errors"
	"fmt"
	"io"
	"net"
	"os"
	"sync"
	"syscall"
	"time"
)

// simnet: in-memory net.Conn / net.Listener whose byte delivery is owned by
// the scheduler. Write appends segments to "in flight"; only the scheduler
// moves bytes from in flight to the reader's inbox.

type halfConn struct {
	name string
	sim  *Sim
	mu   sync.Mutex
	cond *sync.Cond

	segs     [][]byte // written, not delivered
	inflight int
	inbox    []byte // delivered, not read
	wclosed  bool   // writer closed: FIN follows the in-flight bytes
	eof      bool   // FIN delivered
	rerr     error  // abrupt end delivered to the reader
	werr     error  // writer's view after a cut
	rclosed  bool   // reader closed its own end
	rdead    time.Time
	rtimer   *time.Timer

	limit      int  // >= 0: the connection breaks once this many bytes were delivered
	limitReset bool
	limitHit   bool
	firstWriteT int64 // virtual time (ns since run start) of the first write, -1 if none
	total     int    // bytes ever written
	wrote     []byte // first recLimit bytes ever written (wire record)
	delivered int
	sendbuf   int
}

const recLimit = 1 << 16

type simConn struct {
	id     int
	r, w   *halfConn
	la, ra net.Addr
}

type timeoutErr struct{}

func (*timeoutErr) Error() string   { return "i/o timeout" }
func (*timeoutErr) Timeout() bool   { return true }
func (*timeoutErr) Temporary() bool { return true }
func (*timeoutErr) Is(err error) bool {
	return err == os.ErrDeadlineExceeded
}

var errTimeout error = &timeoutErr{}

func (c *simConn) Read(p []byte) (int, error) {
	h := c.r
	h.mu.Lock()
	defer h.mu.Unlock()
	for {
		if h.rclosed {
			return 0, net.ErrClosed
		}
		if len(h.inbox) > 0 {
			n := copy(p, h.inbox)
			h.inbox = h.inbox[n:]
			h.cond.Broadcast() // room for a blocked writer
			return n, nil
		}
		if h.rerr != nil {
			return 0, h.rerr
		}
		if h.eof {
			return 0, io.EOF
		}
		if !h.rdead.IsZero() && !time.Now().Before(h.rdead) {
			return 0, errTimeout
		}
		h.cond.Wait()
	}
}

func (c *simConn) Write(p []byte) (int, error) {
	h := c.w
	h.mu.Lock()
	defer h.mu.Unlock()
	written := 0
	for len(p) > 0 {
		if h.wclosed {
			return written, net.ErrClosed
		}
		if h.werr != nil {
			return written, h.werr
		}
		if h.rclosed {
			// the peer has gone: keep a record of what the writer tried to send
			if len(h.wrote) < recLimit {
				k := recLimit - len(h.wrote)
				if k > len(p) {
					k = len(p)
				}
				h.wrote = append(h.wrote, p[:k]...)
			}
			return written, &net.OpError{Op: "write", Net: "sim", Err: syscall.EPIPE}
		}
		n := len(p)
		if h.sendbuf > 0 {
			room := h.sendbuf - h.inflight - len(h.inbox)
			if room <= 0 {
				h.cond.Wait()
				continue
			}
			if n > room {
				n = room
			}
		}
		if h.total == 0 && h.firstWriteT < 0 && h.sim != nil {
			h.firstWriteT = int64(time.Since(h.sim.t0))
		}
		seg := append([]byte(nil), p[:n]...)
		h.segs = append(h.segs, seg)
		h.inflight += n
		h.total += n
		if len(h.wrote) < recLimit {
			k := recLimit - len(h.wrote)
			if k > n {
				k = n
			}
			h.wrote = append(h.wrote, seg[:k]...)
		}
		written += n
		p = p[n:]
	}
	return written, nil
}

func (c *simConn) Close() error {
	c.w.mu.Lock()
	c.w.wclosed = true
	c.w.cond.Broadcast()
	c.w.mu.Unlock()
	c.r.mu.Lock()
	c.r.rclosed = true
	c.r.cond.Broadcast()
	c.r.mu.Unlock()
	return nil
}
func (c *simConn) LocalAddr() net.Addr  { return c.la }
func (c *simConn) RemoteAddr() net.Addr { return c.ra }
func (c *simConn) SetDeadline(t time.Time) error {
	return c.SetReadDeadline(t)
}
func (c *simConn) SetReadDeadline(t time.Time) error {
	h := c.r
	h.mu.Lock()
	defer h.mu.Unlock()
	h.rdead = t
	if h.rtimer != nil {
		h.rtimer.Stop()
		h.rtimer = nil
	}
	if !t.IsZero() {
		d := time.Until(t)
		if d <= 0 {
			h.cond.Broadcast()
		} else {
			h.rtimer = time.AfterFunc(d, func() {
				h.mu.Lock()
				h.cond.Broadcast()
				h.mu.Unlock()
			})
		}
	}
	return nil
}
func (c *simConn) SetWriteDeadline(t time.Time) error { return nil }

// deliverable reports whether the scheduler can move something on h.
func (h *halfConn) deliverable() bool {
	h.mu.Lock()
	defer h.mu.Unlock()
	if h.rerr != nil || h.eof {
		return false
	}
	return h.inflight > 0 || h.wclosed
}

// remainingBeforeCut: how many more bytes may be delivered before the planned
// break of this direction (-1: no break planned).
func (h *halfConn) remainingBeforeCut() int {
	h.mu.Lock()
	defer h.mu.Unlock()
	if h.limit < 0 || h.limitHit {
		return -1
	}
	if r := h.limit - h.delivered; r > 0 {
		return r
	}
	return 0
}

// deliver moves up to n in-flight bytes (n<0: all) to the reader; when nothing
// is in flight and the writer has closed, delivers the FIN. Returns a
// description for the trace.
func (h *halfConn) deliver(n int) string {
	h.mu.Lock()
	defer h.mu.Unlock()
	if h.inflight == 0 {
		if h.wclosed && !h.eof {
			h.eof = true
			h.cond.Broadcast()
			return "FIN"
		}
		return "nothing"
	}
	if n < 0 || n > h.inflight {
		n = h.inflight
	}
	moved := 0
	for moved < n {
		seg := h.segs[0]
		k := n - moved
		if k >= len(seg) {
			h.inbox = append(h.inbox, seg...)
			moved += len(seg)
			h.segs = h.segs[1:]
		} else {
			h.inbox = append(h.inbox, seg[:k]...)
			h.segs[0] = seg[k:]
			moved += k
		}
	}
	h.inflight -= moved
	h.delivered += moved
	h.cond.Broadcast()
	return fmt.Sprintf("%dB", moved)
}

var errReset = &net.OpError{Op: "read", Net: "sim", Err: syscall.ECONNRESET}

// cut ends the direction: after delivering keep more in-flight bytes the
// reader sees a clean end (FIN) or a reset; the rest is lost; the writer gets
// errors from now on.
func (h *halfConn) cut(keep int, reset bool) {
	h.mu.Lock()
	defer h.mu.Unlock()
	if keep > h.inflight {
		keep = h.inflight
	}
	moved := 0
	for moved < keep {
		seg := h.segs[0]
		k := keep - moved
		if k >= len(seg) {
			h.inbox = append(h.inbox, seg...)
			moved += len(seg)
			h.segs = h.segs[1:]
		} else {
			h.inbox = append(h.inbox, seg[:k]...)
			h.segs[0] = seg[k:]
			moved += k
		}
	}
	h.delivered += moved
	h.segs = nil
	h.inflight = 0
	if reset {
		h.inbox = nil
		h.rerr = errReset
	} else {
		h.eof = true
	}
	h.werr = &net.OpError{Op: "write", Net: "sim", Err: syscall.EPIPE}
	h.cond.Broadcast()
}

type listener struct {
	mu     sync.Mutex
	cond   *sync.Cond
	q      []net.Conn
	closed bool
	addr   net.Addr
}

func newListener(addr net.Addr) *listener {
	l := &listener{addr: addr}
	l.cond = sync.NewCond(&l.mu)
	return l
}

func (l *listener) Accept() (net.Conn, error) {
	l.mu.Lock()
	defer l.mu.Unlock()
	for len(l.q) == 0 && !l.closed {
		l.cond.Wait()
	}
	if l.closed {
		return nil, net.ErrClosed
	}
	c := l.q[0]
	l.q = l.q[1:]
	return c, nil
}
func (l *listener) Close() error {
	l.mu.Lock()
	l.closed = true
	l.cond.Broadcast()
	l.mu.Unlock()
	return nil
}
func (l *listener) Addr() net.Addr { return l.addr }

func (l *listener) push(c net.Conn) error {
	l.mu.Lock()
	defer l.mu.Unlock()
	if l.closed {
		return errors.New("connection refused")
	}
	l.q = append(l.q, c)
	l.cond.Broadcast()
	return nil
}

// connPair is one simulated TCP connection.
type connPair struct {
	id       int
	c2s, s2c *halfConn
	cli, srv *simConn
	tag      string // which server ("http", "grpc")
}

func (s *Sim) dial(l *listener, tag string) (net.Conn, error) {
	s.mu.Lock()
	id := len(s.conns)
	c2s := &halfConn{name: fmt.Sprintf("%s%d:c>s", tag, id), sim: s, sendbuf: s.prog.Cfg.SendBuf, limit: -1, firstWriteT: -1}
	c2s.cond = sync.NewCond(&c2s.mu)
	s2c := &halfConn{name: fmt.Sprintf("%s%d:s>c", tag, id), sim: s, sendbuf: s.prog.Cfg.SendBuf, limit: -1, firstWriteT: -1}
	if wc := s.prog.Cfg.WireCut; wc != nil && tag == "http" && wc.Conn == id {
		if wc.Dir == "c2s" {
			c2s.limit, c2s.limitReset = wc.Offset, wc.Reset
		} else {
			s2c.limit, s2c.limitReset = wc.Offset, wc.Reset
		}
	}
	s2c.cond = sync.NewCond(&s2c.mu)
	ca := &net.TCPAddr{IP: net.IPv4(10, 0, 0, 1), Port: 10000 + id}
	sa := l.addr
	p := &connPair{id: id, c2s: c2s, s2c: s2c, tag: tag}
	p.cli = &simConn{id: id, r: s2c, w: c2s, la: ca, ra: sa}
	p.srv = &simConn{id: id, r: c2s, w: s2c, la: sa, ra: ca}
	s.conns = append(s.conns, p)
	s.stats.Dials++
	s.mu.Unlock()
	s.tracef("dial %s#%d", tag, id)
	if err := l.push(p.srv); err != nil {
		return nil, err
	}
	return p.cli, nil
}
