package sim

import "fmt"

// C20: in-process backpressure. A sender may be ahead of its receiver by the
// one message the channel buffers (plus, towards the client, one message the
// client stream may have pulled out of the channel while looking for headers
// or for the end of a single-response stream). The invariant is evaluated by
// the scheduler at every quiescent point of the run.

func init() {
	specialGenerators["c20"] = genC20
}

func genC20(g *gen, seed int64) *Program {
	p := &Program{Profile: "c20", Seed: seed}
	p.Cfg.Policy = g.pick(3)
	p.Cfg.Cloner = g.k.cloners[g.pick(len(g.k.cloners))]
	p.Cfg.MaxSteps = 3000
	n := 1 + g.pick(2)
	for id := 0; id < n; id++ {
		r := &RPC{ID: id, Transport: TInproc, Svc: "sim.S", Meth: fmt.Sprintf("M%d", id)}
		r.Call = "/" + r.Svc + "/" + r.Meth
		r.Kind = []int{KClientStream, KServerStream, KBidi, KBidi}[g.pick(4)]
		attempts := 1 + g.pick(50)
		if g.p(0.5) {
			attempts = 1 + g.pick(6)
		}
		taken := g.pick(4) // receives before the receiver stalls
		small := func() *MsgSpec { m := g.msg(); m.Size = g.pick(16); m.Kind = 0; return m }
		var c, h []Op
		c2h := r.Kind == KClientStream || (r.Kind == KBidi && g.p(0.5))
		if c2h {
			// client is the sender
			for i := 0; i < attempts; i++ {
				c = append(c, Op{K: "send", Msg: small()})
			}
			c = append(c, Op{K: "closesend"})
			if g.p(0.5) {
				h = append(h, g.hdrOp())
			}
			for i := 0; i < taken; i++ {
				h = append(h, Op{K: "recv"})
			}
			switch g.pick(3) {
			case 0:
				h = append(h, Op{K: "waitctx"})
			case 1:
				h = append(h, Op{K: "sleep", D: g.dur()})
			}
			h = append(h, Op{K: "return", St: g.maybeStatus()})
			if r.Kind == KClientStream {
				c = append(c, Op{K: "recv"})
			} else {
				c = append(c, Op{K: "recvall"})
			}
		} else {
			// handler is the sender
			if r.Kind == KServerStream {
				c = append(c, Op{K: "send", Msg: small()}, Op{K: "closesend"})
				h = append(h, Op{K: "recv"})
			}
			if g.p(0.5) {
				h = append(h, g.hdrOp())
			}
			for i := 0; i < attempts; i++ {
				h = append(h, Op{K: "send", Msg: small()})
			}
			h = append(h, Op{K: "return", St: g.maybeStatus()})
			if g.p(0.4) {
				// Header() once, or polled several times while nothing is received
				nh := 1
				if g.p(0.5) {
					nh = 2 + g.pick(8)
				}
				for i := 0; i < nh; i++ {
					c = append(c, Op{K: "header"})
				}
			}
			for i := 0; i < taken; i++ {
				c = append(c, Op{K: "recv"})
			}
			if g.p(0.5) {
				c = append(c, Op{K: "sleep", D: g.dur()})
			}
		}
		if r.Kind == KClientStream && !c2h {
			c2h = true
		}
		// a single-response method whose handler sends many responses
		if r.Kind == KClientStream && g.p(0.4) {
			h = nil
			h = append(h, Op{K: "recvall"})
			for i := 0; i < attempts; i++ {
				h = append(h, Op{K: "send", Msg: small()})
			}
			h = append(h, Op{K: "return"})
			c = []Op{{K: "closesend"}, {K: "recv"}}
			if g.p(0.4) {
				c = append([]Op{{K: "header"}}, c...)
			}
		}
		r.StopOnErr = g.p(0.7)
		r.Client, r.Handler = c, h
		p.RPCs = append(p.RPCs, r)
	}
	if g.p(0.3) {
		p.Faults = append(p.Faults, Fault{Kind: "cancel", RPC: 0, Step: 20 + g.pick(200)})
	}
	return p
}

// backpressureHook is the step invariant.
func backpressureHook(s *Sim) {
	type cnt struct{ sentOK, recvStarted, hdrCalls int }
	c2h := make([]cnt, len(s.rpcs))
	h2c := make([]cnt, len(s.rpcs))
	s.mu.Lock()
	for _, ev := range s.hist {
		if ev.RPC < 0 || ev.RPC >= len(s.rpcs) {
			continue
		}
		switch {
		case ev.Side == 'c' && ev.Op == "send" && ev.RSeq != 0 && ev.Err.IsNil():
			c2h[ev.RPC].sentOK++
		case ev.Side == 'h' && ev.Op == "recv":
			c2h[ev.RPC].recvStarted++
		case ev.Side == 'h' && ev.Op == "send" && ev.RSeq != 0 && ev.Err.IsNil() && ev.Note != "unary response":
			h2c[ev.RPC].sentOK++
		case ev.Side == 'c' && ev.Op == "recv":
			h2c[ev.RPC].recvStarted++
		case ev.Side == 'c' && ev.Op == "header":
			h2c[ev.RPC].hdrCalls++
		}
	}
	s.mu.Unlock()
	for i, rs := range s.rpcs {
		if rs.r.Transport != TInproc || rs.r.Kind == KUnary || rs.bpReported {
			continue
		}
		if d := c2h[i].sentOK - c2h[i].recvStarted; d > 0 {
			s.stats.Probes["C20-relevant"]++
			if d > 1 {
				rs.bpReported = true
				s.violate("C20", fmt.Sprintf("C20|inproc|%s|client-ahead-by-%s", kindNames[rs.r.Kind], aheadWord(d)), i,
					"rpc%d %s: %d client sends have returned nil but the handler has started only %d receives: the sender is %d messages ahead (limit 1)", i, kindNames[rs.r.Kind], c2h[i].sentOK, c2h[i].recvStarted, d)
			}
		}
		if d := h2c[i].sentOK - h2c[i].recvStarted; d > 0 {
			s.stats.Probes["C20-relevant"]++
			// one buffered in the channel; plus one the client stream itself may
			// have taken out of the channel and holds for the next receive: a
			// frame it looked at in Header(), or (single-response methods) the
			// frame it looks at to make sure no second response follows
			limit := 1
			if h2c[i].hdrCalls > 0 || rs.r.Kind == KClientStream {
				limit = 2
			}
			if d > limit {
				rs.bpReported = true
				s.violate("C20", fmt.Sprintf("C20|inproc|%s|handler-ahead-by-%s", kindNames[rs.r.Kind], aheadWord(d)), i,
					"rpc%d %s: %d handler sends have returned nil but the client has started only %d receives: the sender is %d messages ahead (limit %d)", i, kindNames[rs.r.Kind], h2c[i].sentOK, h2c[i].recvStarted, d, limit)
			}
		}
	}
}

func aheadWord(d int) string {
	switch {
	case d <= 3:
		return fmt.Sprint(d)
	case d <= 8:
		return "4-8"
	}
	return "many"
}
