package sim

import (
	"net/textproto"
	"context"
	"errors"
	"fmt"
	"reflect"
	"runtime/debug"
	"strings"
	"time"

	"github.com/fullstorydev/grpchan/grpchantesting"
	"github.com/fullstorydev/grpchan/inprocgrpc"
	"github.com/fullstorydev/grpchan/simrt"
	"github.com/jhump/protoreflect/dynamic"
	"google.golang.org/grpc"
	"google.golang.org/grpc/codes"
	"google.golang.org/grpc/credentials"
	"google.golang.org/grpc/metadata"
	"google.golang.org/grpc/peer"
	"google.golang.org/grpc/status"
	"google.golang.org/protobuf/proto"
	"google.golang.org/protobuf/types/known/wrapperspb"
)

// Event is one recorded operation (invoke + return) of a client or handler.
type Event struct {
	Seq  int    `json:"seq"`
	RSeq int    `json:"rseq"`
	T    int64  `json:"t"`
	RT   int64  `json:"rt"`
	RPC  int    `json:"rpc"`
	Side byte   `json:"side"`
	G    int    `json:"g"`
	Op   string `json:"op"`

	Msg    *MsgSpec      `json:"msg,omitempty"` // message handed to the library
	Got    string        `json:"got,omitempty"` // digest of the message obtained
	GotMsg proto.Message `json:"-"`
	MD     metadata.MD   `json:"md,omitempty"`
	MD2    metadata.MD   `json:"md2,omitempty"`
	Err    *ErrRec       `json:"err,omitempty"`
	Note   string        `json:"note,omitempty"`
	Flags  map[string]string `json:"flags,omitempty"`
	OptH   []metadata.MD     `json:"opt_h,omitempty"` // grpc.Header targets at return
	OptT   []metadata.MD     `json:"opt_t,omitempty"` // grpc.Trailer targets at return
	obj    any               // the receiver's live object (generated or dynamic message; for the later re-check)
	sobj   any               // the sender's live object (for the later re-check)
	RawBody []byte           `json:"-"` // raw peer: reply body
}

func (e *Event) String() string {
	s := fmt.Sprintf("[%d..%d] rpc%d %c%d %s", e.Seq, e.RSeq, e.RPC, e.Side, e.G, e.Op)
	if e.Msg != nil {
		s += fmt.Sprintf(" msg{tag=%d,size=%d,kind=%d}", e.Msg.Tag, e.Msg.Size, e.Msg.Kind)
	}
	if e.Got != "" {
		s += " got=" + e.Got
	}
	if e.MD != nil {
		s += " md{" + mdString(e.MD) + "}"
	}
	if e.Err != nil {
		s += " -> " + e.Err.String()
	}
	if e.Note != "" {
		s += " (" + e.Note + ")"
	}
	return s
}

func (s *Sim) begin(rpc int, side byte, g int, op string) *Event {
	s.mu.Lock()
	s.seq++
	ev := &Event{Seq: s.seq, T: s.now(), RPC: rpc, Side: side, G: g, Op: op}
	s.hist = append(s.hist, ev)
	s.pendingOps[fmt.Sprintf("%d%c%d", rpc, side, g)] = ev
	s.mu.Unlock()
	return ev
}

func (s *Sim) end(ev *Event, err error) {
	if ev.RPC >= 0 && ev.RPC < len(s.rpcs) && s.rpcs[ev.RPC].r.Transport == TGRPC {
		// grpc-go's own goroutines are not instrumented: an operation that
		// blocked inside it comes back while whoever woke it is still running
		simrt.Woken("grpc-return")
	}
	s.mu.Lock()
	s.seq++
	ev.RSeq = s.seq
	ev.RT = s.now()
	if ev.Err == nil {
		ev.Err = classify(err)
	}
	delete(s.pendingOps, fmt.Sprintf("%d%c%d", ev.RPC, ev.Side, ev.G))
	s.mu.Unlock()
	if s.keepTrace {
		s.tracef("  %s", ev.String())
	}
}

// instant records an event with no duration.
func (s *Sim) instant(rpc int, side byte, g int, op string, fill func(*Event)) *Event {
	s.mu.Lock()
	s.seq++
	ev := &Event{Seq: s.seq, RSeq: s.seq, T: s.now(), RT: s.now(), RPC: rpc, Side: side, G: g, Op: op}
	if fill != nil {
		fill(ev)
	}
	s.hist = append(s.hist, ev)
	s.mu.Unlock()
	if s.keepTrace {
		s.tracef("  %s", ev.String())
	}
	return ev
}

// guard runs f, turning a panic into an ErrRec.
func guard(ev *Event, f func() error) (err error) {
	defer func() {
		if r := recover(); r != nil {
			st := string(debug.Stack())
			if i := strings.Index(st, "panic("); i >= 0 {
				st = st[i:]
			}
			if len(st) > 1500 {
				st = st[:1500]
			}
			ev.Err = &ErrRec{Class: "panic", Text: fmt.Sprint(r), Msg: st}
			err = fmt.Errorf("panic: %v", r)
		}
	}()
	return f()
}

func (s *Sim) sleep(d time.Duration) {
	s.addInstant(time.Now().Add(d))
	time.Sleep(d)
	simrt.Woken("sleep")
}

type mdHolder struct{ md metadata.MD }
type peerHolder struct{ p peer.Peer }

type simCreds struct {
	spec *CredSpec
	s    *Sim
	rpc  int
}

func (c *simCreds) GetRequestMetadata(ctx context.Context, uri ...string) (map[string]string, error) {
	c.s.instant(c.rpc, 'c', 0, "creds", func(e *Event) { e.Note = strings.Join(uri, ",") })
	if c.spec.DelayN > 0 {
		// a token refresh that takes time - and, like a well-behaved
		// credential, gives up when the call's context ends
		ev := c.s.begin(c.rpc, 'c', 9, "creds-delay")
		d := time.Duration(c.spec.DelayN)
		c.s.addInstant(time.Now().Add(d))
		t := time.NewTimer(d)
		select {
		case <-t.C:
			simrt.Woken("sleep")
			c.s.end(ev, nil)
		case <-ctx.Done():
			t.Stop()
			simrt.Woken("creds-ctx")
			c.s.end(ev, ctx.Err())
			if c.spec.DelayN%2 == 0 {
				// what token sources built on oauth2 / net/http return
				return nil, fmt.Errorf("token refresh abandoned: %w", ctx.Err())
			}
			return nil, ctx.Err()
		}
	}
	if c.spec.Fail {
		return nil, fmt.Errorf("credential lookup failed")
	}
	out := map[string]string{}
	for _, kv := range c.spec.MD {
		k := kv.K
		if c.spec.Canon {
			// "Authorization", as most credentials spell it
			k = textproto.CanonicalMIMEHeaderKey(k)
		}
		out[k] = string(kv.V)
	}
	return out, nil
}
func (c *simCreds) RequireTransportSecurity() bool { return c.spec.Secure }

// credsInContext: an outgoing metadata value in ctx that the per-RPC
// credentials of r supplied and the caller did not attach ("" if none).
func credsInContext(ctx context.Context, r *RPC) string {
	md, ok := metadata.FromOutgoingContext(ctx)
	if !ok {
		return ""
	}
	own := kvToMD(r.OutMD)
	for _, kv := range r.Creds.MD {
		for _, x := range md.Get(kv.K) {
			isOwn := false
			for _, o := range own.Get(kv.K) {
				if o == x {
					isOwn = true
				}
			}
			if x == string(kv.V) && !isOwn {
				return fmt.Sprintf("%s=%q", kv.K, x)
			}
		}
	}
	return ""
}

var _ credentials.PerRPCCredentials = (*simCreds)(nil)

type ctxKey struct{ n int }
type namedIntKey int
type namedStrKey string
type ctxVal struct {
	key any
	val any
}

// ---------------------------------------------------------------------------
// client side

func (s *Sim) startRPC(rs *rpcState) {
	r := rs.r
	base := context.Background()
	// caller context values (C10): none of these may be visible to an
	// in-process handler
	strKey := "sim-string-key"
	for i := 0; i < r.CtxVals; i++ {
		var k any
		// key kinds rotate with the RPC id so that every kind is used as the
		// first (and often only) key of some call
		switch (i + r.ID*5 + int(uint64(s.prog.Seed)%13)) % 13 {
		case 0:
			k = ctxKey{i}
		case 1:
			k = &ctxKey{i}
		case 2:
			k = strKey + fmt.Sprint(i)
		case 3:
			k = new(int)
		case 4:
			k = new(string)
		case 5:
			k = i + 1000
		case 6:
			k = namedIntKey(i)
		case 7:
			k = namedStrKey("k" + fmt.Sprint(i))
		case 8:
			k = [2]int{i, 7}
		case 9:
			k = new(struct{})
		case 10:
			k = new(bool)
		case 11:
			k = float64(i) + 0.5
		case 12:
			k = make(chan int)
		}
		v := fmt.Sprintf("caller-value-%d-%d", r.ID, i)
		base = context.WithValue(base, k, v)
		rs.ctxVals = append(rs.ctxVals, ctxVal{k, v})
	}
	if len(r.OutMD) > 0 {
		rs.outMD = kvToMD(r.OutMD)
		base = metadata.NewOutgoingContext(base, rs.outMD)
	}
	rs.baseCtx = base
	switch {
	case r.Cause:
		// the caller says why: net/http and others then report context.Cause
		// instead of the plain context error
		if r.DeadlineN > 0 {
			rs.deadline = time.Now().Add(time.Duration(r.DeadlineN))
			var c0 context.CancelFunc
			base, c0 = context.WithDeadlineCause(base, rs.deadline, errors.New("the caller's budget for this call ran out"))
			_ = c0 // released through the child below
			s.addInstant(rs.deadline)
		}
		ctx, cc := context.WithCancelCause(base)
		var cause error = errors.New("the caller lost interest")
		switch (r.ID + int(uint64(s.prog.Seed)%3)) % 3 {
		case 1:
			// what errgroup.WithContext does: the context of the remaining calls
			// is cancelled with the error of the sibling that failed first
			cause = status.Error(codes.NotFound, "a sibling call failed")
		case 2:
			cause = fmt.Errorf("giving up: %w", status.Error(codes.Unavailable, "a sibling call failed"))
		}
		rs.ctx, rs.cancel = ctx, func() { cc(cause) }
	case r.DeadlineN > 0:
		rs.deadline = time.Now().Add(time.Duration(r.DeadlineN))
		rs.ctx, rs.cancel = context.WithDeadline(base, rs.deadline)
		s.addInstant(rs.deadline)
	default:
		rs.ctx, rs.cancel = context.WithCancel(base)
	}
	rs.started = true
	if s.ended {
		// the run is being torn down: never leave a live context behind -
		// and say so, or the oracles take what this call then goes through
		// for the library's doing
		s.endCtx(rs, "end")
		rs.cancel()
	}
}

func (s *Sim) callOpts(rs *rpcState) []grpc.CallOption {
	r := rs.r
	var opts []grpc.CallOption
	for i := 0; i < r.NHdrOpts; i++ {
		h := &mdHolder{}
		rs.hdrOpts = append(rs.hdrOpts, h)
		opts = append(opts, grpc.Header(&h.md))
	}
	for i := 0; i < r.NTlrOpts; i++ {
		h := &mdHolder{}
		rs.tlrOpts = append(rs.tlrOpts, h)
		opts = append(opts, grpc.Trailer(&h.md))
	}
	if r.PeerOpt {
		rs.peerOpt = &peerHolder{}
		opts = append(opts, grpc.Peer(&rs.peerOpt.p))
	}
	if r.Creds0 != nil {
		opts = append(opts, grpc.PerRPCCredentials(&simCreds{spec: r.Creds0, s: s, rpc: r.ID}))
	}
	if r.Creds != nil {
		opts = append(opts, grpc.PerRPCCredentials(&simCreds{spec: r.Creds, s: s, rpc: r.ID}))
	}
	return opts
}

func (s *Sim) snapshotOpts(rs *rpcState, ev *Event) {
	if ev.Flags == nil {
		ev.Flags = map[string]string{}
	}
	ev.OptH, ev.OptT = nil, nil
	for _, h := range rs.hdrOpts {
		ev.OptH = append(ev.OptH, mdCopy(h.md))
	}
	for _, h := range rs.tlrOpts {
		ev.OptT = append(ev.OptT, mdCopy(h.md))
	}
}

// optionAliasProbe: the caller edits, in place, the metadata one of its
// grpc.Header / grpc.Trailer targets was filled with (an interceptor deleting
// a key it has consumed, say). No other target, and nothing the stream hands
// out, may change with it: each is the caller's own copy of what the server sent.
func (s *Sim) optionAliasProbe(rs *rpcState, st grpc.ClientStream) {
	if len(rs.r.Client2) > 0 {
		return // the other goroutine may still be using them
	}
	const mark = "scribbled-by-the-caller-afterwards"
	probe := func(kind string, hs []*mdHolder, other func() metadata.MD) {
		if len(hs) == 0 || hs[0].md == nil {
			return
		}
		hs[0].md[mark] = []string{"x"}
		s.probe("option-target-scribbled")
		shared := ""
		for i := 1; i < len(hs); i++ {
			if _, bad := hs[i].md[mark]; bad {
				shared = fmt.Sprintf("grpc.%s target #%d", kind, i)
			}
		}
		if other != nil {
			if md := other(); md != nil {
				if _, bad := md[mark]; bad {
					shared = "what the stream's " + kind + "() returns"
				}
			}
		}
		delete(hs[0].md, mark)
		if shared != "" {
			s.violate("C03", fmt.Sprintf("C03|%s|%s|option-targets-share-one-map|%s", rs.r.Transport, kindNames[rs.r.Kind], kind), rs.r.ID,
				"rpc%d %s %s: after the call the caller added a key to the metadata in its first grpc.%s target; the key shows up in %s as well: the targets are not copies of what the server sent but one shared map", rs.r.ID, rs.r.Transport, kindNames[rs.r.Kind], kind, shared)
		}
	}
	var tlr func() metadata.MD
	if st != nil {
		tlr = func() metadata.MD { return safeTrailer(st) }
	}
	probe("Header", rs.hdrOpts, nil)
	probe("Trailer", rs.tlrOpts, tlr)
}

func junkMessage() *grpchantesting.Message {
	return &grpchantesting.Message{
		Payload:  []byte("JUNKJUNK"),
		Count:    -77,
		Code:     -78,
		Headers:  map[string][]byte{"junk": []byte("junk")},
		Trailers: map[string][]byte{"junk2": []byte("junk")},
	}
}

func (s *Sim) clientMain(rs *rpcState, g int, ops []Op) {
	r := rs.r
	if r.RawClient {
		s.rawClient(rs, ops)
		return
	}
	conn := s.env.conn(r.Transport)
	name := fmt.Sprintf("c%d.%d", r.ID, g)
	if g == 0 {
		simrt.Yield(name + ":start")
		s.startRPC(rs)
		opts := s.callOpts(rs)
		if r.Kind == KUnary {
			var spec *MsgSpec
			junk := false
			for _, op := range ops {
				if op.K == "invoke" {
					spec = op.Msg
					junk = op.N == 1
				}
			}
			req := buildObj(spec, r.DynC)
			rs.sentObjs = append(rs.sentObjs, req)
			resp := newDst(junk, r.DynC)
			mismatch := false
			for _, op := range ops {
				if op.K == "invoke" && op.N == 2 {
					mismatch = true
					resp = &wrapperspb.StringValue{} // a response type the reply may not decode into
				}
			}
			ev := s.begin(r.ID, 'c', g, "invoke")
			ev.Msg = spec
			ev.sobj = req
			err := guard(ev, func() error { return conn.Invoke(rs.ctx, r.Call, req, resp, opts...) })
			if err == nil && mismatch {
				ev.Got = "StringValue"
				ev.Note = "decoded-into-other-type"
			} else if err == nil {
				ev.GotMsg = proto.Clone(asGen(resp))
				ev.Got = digestAny(resp)
				ev.obj = resp
				s.mu.Lock()
				rs.recvObjs = append(rs.recvObjs, resp)
				var src any
				if len(rs.hSentObjs) > 0 {
					src = rs.hSentObjs[0]
				}
				s.mu.Unlock()
				if r.Transport == TInproc && src != nil {
					// the object the handler returned (and may keep, e.g. in a cache)
					if why := sharesMemory(src, resp); why != "" {
						ev.Note = "ALIAS:" + why
					}
				}
			}
			if mismatch {
				ev.Flags = map[string]string{"mismatch": "1"}
			}
			s.snapshotOpts(rs, ev)
			if rs.peerOpt != nil {
				ev.Flags["peer"] = peerString(&rs.peerOpt.p)
			}
			if junk {
				ev.Flags["junkdst"] = "1"
			}
			s.end(ev, err)
			ops = afterInvoke(ops)
		} else {
			desc := &grpc.StreamDesc{StreamName: r.Meth, ClientStreams: r.Kind == KClientStream || r.Kind == KBidi, ServerStreams: r.Kind == KServerStream || r.Kind == KBidi}
			ev := s.begin(r.ID, 'c', g, "newstream")
			var st grpc.ClientStream
			err := guard(ev, func() error {
				var e error
				st, e = conn.NewStream(rs.ctx, desc, r.Call, opts...)
				return e
			})
			if err == nil && st != nil && r.Creds != nil {
				// anything in the stream's context that only the credentials supplied?
				if leak := credsInContext(st.Context(), r); leak != "" {
					if ev.Flags == nil {
						ev.Flags = map[string]string{}
					}
					ev.Flags["ctx-md-has-creds"] = leak
				}
			}
			s.end(ev, err)
			if err != nil || st == nil {
				s.clientExit(rs)
				if len(r.Client2) > 0 {
					// the second goroutine was never started
				}
				return
			}
			rs.stream = st
			if len(r.Client2) > 0 {
				s.spawnClient(rs, 1, r.Client2)
			}
		}
	}
	st, _ := rs.stream.(grpc.ClientStream)
	for _, op := range ops {
		simrt.Yield(name + ":" + op.K)
		s.clientOp(rs, g, st, op)
		if rs.stubFailed {
			// generated code returns (nil, err): the caller has no stream to
			// use, and (like any careful caller) releases its context
			s.endCtx(rs, "end")
			rs.cancel()
			break
		}
	}
	s.clientRecheck(rs, g)
	if g == 0 {
		s.optionAliasProbe(rs, st)
	}
	if g == 0 && rs.outMD != nil {
		s.instant(r.ID, 'c', g, "outmd-at-end", func(e *Event) { e.MD = mdCopy(rs.outMD) })
	}
	s.clientExit(rs)
}

// stubPhase: a server-stream call made through generated code consists of
// NewStream, SendMsg(request), CloseSend; an error from either of the latter
// is what the stub returns to the caller, who never gets a stream to receive
// from.
func (s *Sim) stubPhase(rs *rpcState, ev *Event, err error) {
	if !rs.r.Stub || rs.r.Kind != KServerStream || rs.stubDone || len(rs.r.Client2) > 0 {
		return
	}
	if ev.Op == "closesend" {
		rs.stubDone = true
	}
	if ev.Flags == nil {
		ev.Flags = map[string]string{}
	}
	ev.Flags["stub"] = "1"
	if err != nil {
		rs.stubFailed = true
		rs.stubDone = true
		s.probe("stub-call-failed")
	}
}

func afterInvoke(ops []Op) []Op {
	for i, op := range ops {
		if op.K == "invoke" {
			return ops[i+1:]
		}
	}
	return nil
}

func (s *Sim) clientExit(rs *rpcState) {
	s.mu.Lock()
	rs.nClient--
	if rs.nClient <= 0 && !rs.clientEnded {
		rs.clientEnded = true
		s.noteStep(&s.stats.CEndStep, rs.r.ID)
	}
	s.liveActors--
	s.mu.Unlock()
}

func (s *Sim) spawnClient(rs *rpcState, g int, ops []Op) {
	s.mu.Lock()
	rs.nClient++
	s.liveActors++
	s.mu.Unlock()
	site := fmt.Sprintf("actor:c%d.%d", rs.r.ID, g)
	simrt.GoSpawn(site)
	go func() {
		simrt.GoStart(site)
		defer simrt.GoEnd()
		simrt.SetName(fmt.Sprintf("c%d.%d", rs.r.ID, g))
		s.clientMain(rs, g, ops)
	}()
}

func (s *Sim) clientOp(rs *rpcState, g int, st grpc.ClientStream, op Op) {
	r := rs.r
	switch op.K {
	case "send":
		if st == nil {
			return
		}
		obj := buildObj(op.Msg, r.DynC)
		s.mu.Lock()
		rs.sentObjs = append(rs.sentObjs, obj)
		s.mu.Unlock()
		ev := s.begin(r.ID, 'c', g, "send")
		ev.Msg = op.Msg
		ev.sobj = obj
		err := guard(ev, func() error { return st.SendMsg(obj) })
		s.stubPhase(rs, ev, err)
		s.end(ev, err)
	case "recv":
		if st == nil {
			return
		}
		if op.N == 2 {
			s.clientRecvMismatch(rs, g, st)
		} else {
			s.clientRecv(rs, g, st, op.N == 1)
		}
	case "recvall":
		if st == nil {
			return
		}
		max := op.N
		if max <= 0 {
			max = 40
		}
		for i := 0; i < max; i++ {
			if i > 0 {
				simrt.Yield(fmt.Sprintf("c%d.%d:recv", r.ID, g))
			}
			if err := s.clientRecv(rs, g, st, op.Ref == "junk"); err != nil {
				break
			}
		}
	case "closesend":
		if st == nil {
			return
		}
		ev := s.begin(r.ID, 'c', g, "closesend")
		err := guard(ev, func() error { return st.CloseSend() })
		s.stubPhase(rs, ev, err)
		s.end(ev, err)
	case "header":
		if st == nil {
			return
		}
		ev := s.begin(r.ID, 'c', g, "header")
		err := guard(ev, func() error {
			md, e := st.Header()
			ev.MD = mdCopy(md)
			return e
		})
		s.snapshotOpts(rs, ev)
		s.end(ev, err)
	case "trailer":
		if st == nil {
			return
		}
		ev := s.begin(r.ID, 'c', g, "trailer")
		_ = guard(ev, func() error {
			ev.MD = mdCopy(st.Trailer())
			return nil
		})
		s.snapshotOpts(rs, ev)
		s.end(ev, nil)
	case "mutate":
		s.mutate(rs, 'c', g, op.Ref)
	case "mutmd":
		// the caller re-uses the metadata object it attached to the context
		if rs.outMD != nil {
			s.instant(r.ID, 'c', g, "mutmd", nil)
			for k, vs := range rs.outMD {
				for i := range vs {
					vs[i] = "MUTATED-BY-CALLER"
				}
				rs.outMD[k] = vs
			}
			rs.outMD["caller-added-later"] = []string{"x"}
			s.probe("caller-md-mutated")
		}
	case "sleep":
		ev := s.begin(r.ID, 'c', g, "sleep")
		s.sleep(time.Duration(op.D))
		s.end(ev, nil)
	case "invoke":
		// handled in clientMain
	}
}

// clientRecvMismatch receives into a message of another type
// (wrapperspb.StringValue, whose field 1 is a string where the test message has
// bytes): whatever cannot be decoded into it must come back as an error.
func (s *Sim) clientRecvMismatch(rs *rpcState, g int, st grpc.ClientStream) error {
	r := rs.r
	dst := &wrapperspb.StringValue{}
	ev := s.begin(r.ID, 'c', g, "recv")
	ev.Flags = map[string]string{"mismatch": "1"}
	err := guard(ev, func() error { return st.RecvMsg(dst) })
	if err == nil {
		ev.Got = "StringValue:" + fmt.Sprint(len(dst.Value))
		ev.Note = "decoded-into-other-type"
	}
	if err != nil || r.Kind == KClientStream {
		ev.MD2 = mdCopy(safeTrailer(st))
		s.snapshotOpts(rs, ev)
		if ev.Flags == nil {
			ev.Flags = map[string]string{}
		}
		ev.Flags["mismatch"] = "1"
	}
	s.end(ev, err)
	return err
}

func (s *Sim) clientRecv(rs *rpcState, g int, st grpc.ClientStream, junk bool) error {
	r := rs.r
	dst := newDst(junk, r.DynC)
	ev := s.begin(r.ID, 'c', g, "recv")
	err := guard(ev, func() error { return st.RecvMsg(dst) })
	if err == nil {
		ev.GotMsg = proto.Clone(asGen(dst))
		ev.Got = digestAny(dst)
		ev.obj = dst
		s.mu.Lock()
		idx := len(rs.recvObjs)
		rs.recvObjs = append(rs.recvObjs, dst)
		var src any
		if idx < len(rs.hSentObjs) {
			src = rs.hSentObjs[idx]
		}
		s.mu.Unlock()
		if r.Transport == TInproc && src != nil {
			if why := sharesMemory(src, dst); why != "" {
				ev.Note = "ALIAS:" + why
			}
		}
	}
	if err != nil || r.Kind == KClientStream {
		// (possibly) terminal outcome: capture what the call options and accessors show
		ev.MD2 = mdCopy(safeTrailer(st))
		s.snapshotOpts(rs, ev)
	}
	if ev.Flags == nil {
		ev.Flags = map[string]string{}
	}
	if rs.peerOpt != nil {
		ev.Flags["peer"] = peerString(&rs.peerOpt.p)
	}
	if junk {
		ev.Flags["junkdst"] = "1"
	}
	s.end(ev, err)
	return err
}

func safeTrailer(st grpc.ClientStream) (md metadata.MD) {
	defer func() { recover() }()
	return st.Trailer()
}

func peerString(p *peer.Peer) string {
	if p == nil {
		return "<nil>"
	}
	addr := "<nil>"
	if p.Addr != nil {
		addr = p.Addr.Network() + "/" + p.Addr.String()
	}
	auth := "<nil>"
	if p.AuthInfo != nil {
		auth = p.AuthInfo.AuthType()
		if ti, ok := p.AuthInfo.(credentials.TLSInfo); ok {
			auth = fmt.Sprintf("tls(v=%x,hs=%v)", ti.State.Version, ti.State.HandshakeComplete)
		}
	}
	return addr + "|" + auth
}

// clientRecheck: at the end of a client goroutine's script everything the
// client received must still be what it was when received (no later write by
// the peer), unless the client itself mutated it.
func (s *Sim) clientRecheck(rs *rpcState, g int) { s.recheck(rs, 'c', g) }

func (s *Sim) recheck(rs *rpcState, side byte, g int) {
	if rs.r.Transport != TInproc {
		return
	}
	s.mu.Lock()
	var evs []*Event
	for _, ev := range s.hist {
		if ev.RPC == rs.r.ID && ev.Side == side && ev.obj != nil && !rs.mutatedObj[ev.obj] {
			evs = append(evs, ev)
		}
	}
	s.mu.Unlock()
	for _, ev := range evs {
		if d := digestAny(ev.obj); d != ev.Got {
			s.instant(rs.r.ID, side, g, "recheck", func(e *Event) {
				e.Note = fmt.Sprintf("MODIFIED: message received at seq %d was %s, is now %s", ev.Seq, ev.Got, d)
			})
		}
	}
	// and everything this side handed to the library is still what it was,
	// unless this side mutated it itself (the peer's writes to its copy must
	// never come back)
	s.mu.Lock()
	var sent []*Event
	for _, ev := range s.hist {
		if ev.RPC == rs.r.ID && ev.Side == side && ev.sobj != nil && ev.Msg != nil && ev.Msg.Kind != 4 && !rs.mutatedObj[ev.sobj] {
			sent = append(sent, ev)
		}
	}
	s.mu.Unlock()
	for _, ev := range sent {
		want := digestMsg(ev.Msg.Build())
		if d := digestAny(ev.sobj); d != want {
			s.instant(rs.r.ID, side, g, "recheck", func(e *Event) {
				e.Note = fmt.Sprintf("MODIFIED: message sent at seq %d was %s, is now %s although this side never touched it", ev.Seq, want, d)
			})
		}
	}
}



// mutate scribbles over a message object this side handed to, or obtained
// from, the library earlier.
func (s *Sim) mutate(rs *rpcState, side byte, g int, ref string) {
	if len(ref) < 2 {
		return
	}
	var idx int
	fmt.Sscanf(ref[1:], "%d", &idx)
	s.mu.Lock()
	var list []any
	switch {
	case side == 'c' && ref[0] == 's':
		list = rs.sentObjs
	case side == 'c' && ref[0] == 'r':
		list = rs.recvObjs
	case side == 'h' && ref[0] == 's':
		list = rs.hSentObjs
	case side == 'h' && ref[0] == 'r':
		list = rs.hRecvObjs
	}
	var obj any
	if idx < len(list) {
		obj = list[idx]
	}
	if obj != nil {
		if rs.mutatedObj == nil {
			rs.mutatedObj = map[any]bool{}
		}
		rs.mutatedObj[obj] = true
	}
	s.mu.Unlock()
	if obj == nil {
		return
	}
	if dm, ok := obj.(*dynamic.Message); ok && dm != nil {
		s.instant(rs.r.ID, side, g, "mutate", func(e *Event) { e.Note = ref })
		mutateDyn(dm)
		s.probe("mutations")
		s.probe("mutations-dynamic")
		return
	}
	m, ok := obj.(*grpchantesting.Message)
	if !ok || m == nil {
		return
	}
	s.instant(rs.r.ID, side, g, "mutate", func(e *Event) { e.Note = ref })
	for i := range m.Payload {
		m.Payload[i] ^= 0xA5
	}
	m.Payload = append(m.Payload, 0xEE)
	m.Count += 1000
	for k, v := range m.Headers {
		for i := range v {
			v[i] ^= 0x5A
		}
		m.Headers[k] = v
	}
	if m.Headers != nil {
		m.Headers["mutated"] = []byte("yes")
	}
	for _, a := range m.ErrorDetails {
		for i := range a.Value {
			a.Value[i] ^= 0xFF
		}
		a.TypeUrl += "x"
	}
	s.probe("mutations")
}

// sharesMemory reports a description of memory reachable from both messages.
func sharesMemory(a, b any) string {
	seen := map[uintptr]string{}
	collectAny(a, seen, nil)
	var hit string
	collectAny(b, nil, func(p uintptr, path string) {
		if w, ok := seen[p]; ok && hit == "" {
			hit = fmt.Sprintf("%s aliases %s", path, w)
		}
	})
	return hit
}

// collectAny walks a generated message by reflection and a dynamic message
// through its field accessors (its own fields are unexported).
func collectAny(o any, seen map[uintptr]string, probe func(uintptr, string)) {
	dm, ok := o.(*dynamic.Message)
	if !ok {
		collect(reflect.ValueOf(o), "", seen, probe)
		return
	}
	if dm == nil {
		return
	}
	for _, fd := range dm.GetKnownFields() {
		if !dm.HasField(fd) {
			continue
		}
		collect(reflect.ValueOf(dm.GetField(fd)), ".dyn:"+fd.GetName(), seen, probe)
	}
}

func collect(v reflect.Value, path string, seen map[uintptr]string, probe func(uintptr, string)) {
	note := func(p uintptr, path string) {
		if p == 0 {
			return
		}
		if seen != nil {
			seen[p] = path
		}
		if probe != nil {
			probe(p, path)
		}
	}
	switch v.Kind() {
	case reflect.Ptr:
		if v.IsNil() {
			return
		}
		if path != "" {
			note(v.Pointer(), path)
		}
		collect(v.Elem(), path, seen, probe)
	case reflect.Interface:
		if !v.IsNil() {
			collect(v.Elem(), path, seen, probe)
		}
	case reflect.Struct:
		t := v.Type()
		for i := 0; i < v.NumField(); i++ {
			f := t.Field(i)
			if !f.IsExported() {
				continue
			}
			collect(v.Field(i), path+"."+f.Name, seen, probe)
		}
	case reflect.Slice:
		if v.IsNil() || v.Len() == 0 {
			return
		}
		note(v.Pointer(), path)
		if v.Type().Elem().Kind() != reflect.Uint8 {
			for i := 0; i < v.Len(); i++ {
				collect(v.Index(i), fmt.Sprintf("%s[%d]", path, i), seen, probe)
			}
		}
	case reflect.Map:
		if v.IsNil() {
			return
		}
		note(v.Pointer(), path)
		it := v.MapRange()
		for it.Next() {
			collect(it.Value(), fmt.Sprintf("%s[%v]", path, it.Key()), seen, probe)
		}
	}
}

// ---------------------------------------------------------------------------
// handler side

type handlerInfo struct {
	svc, meth string
	kind      int
}

// lookupRPC finds the RPC a registered handler serves.
func (s *Sim) lookupRPC(svc, meth string) *rpcState { return s.lookupRPCctx(svc, meth, nil) }

// lookupRPCctx: when several RPCs share one registered method (the same
// method reached through different carriers), the caller's "x-sim-rpc"
// metadata tells them apart.
func (s *Sim) lookupRPCctx(svc, meth string, ctx context.Context) *rpcState {
	var cands []*rpcState
	for _, rs := range s.rpcs {
		if rs.r.Svc == svc && rs.r.Meth == meth {
			cands = append(cands, rs)
		}
	}
	switch len(cands) {
	case 0:
		return nil
	case 1:
		return cands[0]
	}
	if ctx != nil {
		if md, ok := metadata.FromIncomingContext(ctx); ok {
			if v := md.Get("x-sim-rpc"); len(v) > 0 {
				for _, rs := range cands {
					if fmt.Sprint(rs.r.ID) == v[0] {
						return rs
					}
				}
			}
		}
	}
	return cands[0]
}

func (s *Sim) handlerEnter(rs *rpcState, ctx context.Context, via string) *Event {
	simrt.Adopt(fmt.Sprintf("h%d", rs.r.ID), rs.r.ID)
	simrt.Yield(fmt.Sprintf("h%d:enter", rs.r.ID))
	s.mu.Lock()
	rs.handlerEntered++
	rs.handlerCtx = ctx
	s.handlersLive++
	s.mu.Unlock()
	simrt.SetName(fmt.Sprintf("h%d", rs.r.ID))
	return s.instant(rs.r.ID, 'h', 0, "hstart", func(e *Event) {
		md, _ := metadata.FromIncomingContext(ctx)
		e.MD = mdCopy(md)
		e.Flags = map[string]string{"via": via}
		if p, ok := peer.FromContext(ctx); ok {
			e.Flags["peer"] = peerString(p)
		} else {
			e.Flags["peer"] = "<none>"
		}
		if dl, ok := ctx.Deadline(); ok {
			e.Flags["deadline"] = fmt.Sprint(int64(dl.Sub(s.t0)))
		}
		if sts := grpc.ServerTransportStreamFromContext(ctx); sts != nil {
			e.Flags["method"] = sts.Method()
		} else {
			e.Flags["method"] = "<none>"
		}
		if _, ok := metadata.FromOutgoingContext(ctx); ok {
			e.Flags["outgoing-md-visible"] = "yes"
		}
		e.Flags["sees"] = strings.Join(layerMarks(ctx), ",")
		if _, ok := metadata.FromIncomingContext(ctx); !ok {
			// over a network a handler always has incoming metadata, if only the
			// transport's own keys
			e.Flags["incoming-md-absent"] = "yes"
		}
		leaked := 0
		for _, cv := range rs.ctxVals {
			if ctx.Value(cv.key) != nil {
				leaked++
			}
		}
		if leaked > 0 {
			e.Flags["caller-values-visible"] = fmt.Sprint(leaked)
		}
		if rs.r.Transport == TInproc {
			cc := inprocgrpc.ClientContext(ctx)
			switch {
			case cc == nil:
				e.Flags["clientctx"] = "nil"
			case len(rs.ctxVals) > 0 && cc.Value(rs.ctxVals[0].key) != rs.ctxVals[0].val:
				e.Flags["clientctx"] = "wrong"
			default:
				e.Flags["clientctx"] = "ok"
			}
			if cc != nil && rs.r.Creds != nil {
				// the caller's context is the caller's: what the credentials
				// contributed to the request is not in it
				if leak := credsInContext(cc, rs.r); leak != "" {
					e.Flags["clientctx-md-has-creds"] = leak
				}
			}
		}
		if ctx.Err() != nil {
			e.Flags["ctx-done-at-entry"] = ctx.Err().Error()
		}
	})
}

func (s *Sim) handlerExit(rs *rpcState, err error, resp proto.Message) {
	s.handlerRecheck(rs)
	s.instant(rs.r.ID, 'h', 0, "hreturn", func(e *Event) {
		e.Err = classify(err)
		if resp != nil {
			e.Got = digestMsg(resp)
		}
	})
	s.mu.Lock()
	rs.handlerDone++
	s.handlersLive--
	s.noteStep(&s.stats.HReturnStep, rs.r.ID)
	s.mu.Unlock()
}

// noteStep records the current scheduler step for call id (first occurrence).
func (s *Sim) noteStep(list *[]int, id int) {
	for len(*list) <= id {
		*list = append(*list, 0)
	}
	if (*list)[id] == 0 {
		(*list)[id] = s.step
	}
}

func (s *Sim) handlerRecheck(rs *rpcState) { s.recheck(rs, 'h', 0) }

// streamHandler runs the handler script of a streaming RPC.
func (s *Sim) streamHandler(rs *rpcState, stream grpc.ServerStream) (err error) {
	r := rs.r
	ctx := stream.Context()
	s.handlerEnter(rs, ctx, "stream")
	s.instant(r.ID, 'h', 0, "impl-enter", nil)
	var late []Op
	defer func() {
		s.instant(r.ID, 'h', 0, "impl-exit", func(e *Event) { e.Err = classify(err) })
		s.handlerExit(rs, err, nil)
		if len(late) > 0 {
			s.spawnLate(rs, stream, late)
		}
	}()
	name := fmt.Sprintf("h%d", r.ID)
	var senderDone chan struct{}
	if len(r.Handler2) > 0 {
		senderDone = s.spawnHandlerSender(rs, stream, r.Handler2)
	}
	for _, op := range r.Handler {
		simrt.Yield(name + ":" + op.K)
		var opErr error
		if op.K == "return" && senderDone != nil {
			// like any handler that starts a goroutine: wait for it first
			ev := s.begin(r.ID, 'h', 0, "join")
			<-senderDone
			simrt.Woken("join")
			s.end(ev, nil)
			senderDone = nil
		}
		switch op.K {
		case "late":
			late = append(late, op)
		case "recv":
			opErr = s.handlerRecv(rs, stream, op.N == 1)
		case "recvall":
			max := 40
			for i := 0; i < max; i++ {
				if i > 0 {
					simrt.Yield(name + ":recv")
				}
				// Ref "junk": every destination is pre-filled (a handler that
				// re-uses its message value across receives)
				if e := s.handlerRecv(rs, stream, op.Ref == "junk"); e != nil {
					if classify(e).Class != "EOF" {
						opErr = e
					}
					break
				}
			}
		case "send":
			obj := buildObj(op.Msg, r.DynH)
			s.mu.Lock()
			rs.hSentObjs = append(rs.hSentObjs, obj)
			s.mu.Unlock()
			ev := s.begin(r.ID, 'h', 0, "send")
			ev.Msg = op.Msg
			ev.sobj = obj
			opErr = guard(ev, func() error { return stream.SendMsg(obj) })
			s.end(ev, opErr)
		case "sethdr":
			ev := s.begin(r.ID, 'h', 0, "sethdr")
			ev.MD = kvToMD(op.MD)
			md := kvToMD(op.MD)
			opErr = guard(ev, func() error { return stream.SetHeader(md) })
			s.end(ev, opErr)
			s.scribble(md, op)
			opErr = nil // header errors are not fatal to scripted handlers
		case "sendhdr":
			ev := s.begin(r.ID, 'h', 0, "sendhdr")
			ev.MD = kvToMD(op.MD)
			md := kvToMD(op.MD)
			opErr = guard(ev, func() error { return stream.SendHeader(md) })
			s.end(ev, opErr)
			s.scribble(md, op)
			opErr = nil
		case "settlr":
			ev := s.begin(r.ID, 'h', 0, "settlr")
			ev.MD = kvToMD(op.MD)
			md := kvToMD(op.MD)
			_ = guard(ev, func() error { stream.SetTrailer(md); return nil })
			s.end(ev, nil)
			s.scribble(md, op)
		case "sleep":
			ev := s.begin(r.ID, 'h', 0, "sleep")
			s.sleep(time.Duration(op.D))
			s.end(ev, nil)
		case "waitctx":
			ev := s.begin(r.ID, 'h', 0, "waitctx")
			s.waitCtx(ctx, ev)
			s.end(ev, nil)
		case "mutate":
			s.mutate(rs, 'h', 0, op.Ref)
		case "hmutmd":
			// the handler scribbles over the metadata object it was given
			s.instant(r.ID, 'h', 0, "hmutmd", nil)
			if md, ok := metadata.FromIncomingContext(ctx); ok {
				for k, vs := range md {
					for i := range vs {
						vs[i] = "MUTATED-BY-HANDLER"
					}
					md[k] = append(vs, "HANDLER-EXTRA")
				}
				md["handler-added-later"] = []string{"x"}
				s.probe("handler-md-mutated")
			}
		case "readmd":
			s.instant(r.ID, 'h', 0, "readmd", func(e *Event) {
				md, _ := metadata.FromIncomingContext(ctx)
				e.MD = mdCopy(md)
			})
		case "return":
			return op.St.Err(ctx)
		}
		if opErr != nil && r.StopOnErr {
			return opErr
		}
	}
	return nil
}

func (s *Sim) handlerRecv(rs *rpcState, stream grpc.ServerStream, junk bool) error {
	r := rs.r
	dst := newDst(junk, r.DynH)
	ev := s.begin(r.ID, 'h', 0, "recv")
	if junk {
		ev.Flags = map[string]string{"junkdst": "1"}
	}
	err := guard(ev, func() error { return stream.RecvMsg(dst) })
	if err == nil {
		ev.GotMsg = proto.Clone(asGen(dst))
		ev.Got = digestAny(dst)
		ev.obj = dst
		s.mu.Lock()
		idx := len(rs.hRecvObjs)
		rs.hRecvObjs = append(rs.hRecvObjs, dst)
		var src any
		if idx < len(rs.sentObjs) {
			src = rs.sentObjs[idx]
		}
		s.mu.Unlock()
		if r.Transport == TInproc && src != nil {
			if why := sharesMemory(src, dst); why != "" {
				ev.Note = "ALIAS:" + why
			}
		}
	}
	s.end(ev, err)
	return err
}

// spawnHandlerSender runs the sending half of a full-duplex handler in a
// goroutine of its own (gRPC allows one sender and one receiver per stream).
func (s *Sim) spawnHandlerSender(rs *rpcState, stream grpc.ServerStream, ops []Op) chan struct{} {
	done := make(chan struct{})
	r := rs.r
	s.mu.Lock()
	s.liveActors++
	s.mu.Unlock()
	site := fmt.Sprintf("actor:hs%d", r.ID)
	simrt.GoSpawn(site)
	go func() {
		simrt.GoStart(site)
		defer simrt.GoEnd()
		simrt.SetName(fmt.Sprintf("hs%d", r.ID))
		defer func() {
			s.mu.Lock()
			s.liveActors--
			s.mu.Unlock()
			close(done)
		}()
		name := fmt.Sprintf("hs%d", r.ID)
		for _, op := range ops {
			simrt.Yield(name + ":" + op.K)
			switch op.K {
			case "send":
				obj := buildObj(op.Msg, r.DynH)
				s.mu.Lock()
				rs.hSentObjs = append(rs.hSentObjs, obj)
				s.mu.Unlock()
				ev := s.begin(r.ID, 'h', 1, "send")
				ev.Msg = op.Msg
				ev.sobj = obj
				err := guard(ev, func() error { return stream.SendMsg(obj) })
				s.end(ev, err)
				if err != nil {
					return
				}
			case "sleep":
				ev := s.begin(r.ID, 'h', 1, "sleep")
				s.sleep(time.Duration(op.D))
				s.end(ev, nil)
			}
		}
	}()
	return done
}

// spawnLate: a goroutine the handler started keeps using the stream after the
// handler has returned (a worker that was handed the stream and is a little
// late). Whatever such an operation returns, it must return, and not by
// bringing the process down.
func (s *Sim) spawnLate(rs *rpcState, stream grpc.ServerStream, ops []Op) {
	s.mu.Lock()
	s.liveActors++
	s.mu.Unlock()
	site := fmt.Sprintf("actor:late%d", rs.r.ID)
	simrt.GoSpawn(site)
	go func() {
		simrt.GoStart(site)
		defer simrt.GoEnd()
		simrt.SetName(fmt.Sprintf("late%d", rs.r.ID))
		defer func() {
			s.mu.Lock()
			s.liveActors--
			s.mu.Unlock()
		}()
		name := fmt.Sprintf("late%d", rs.r.ID)
		for _, op := range ops {
			// give the transport time to finish the call first
			s.sleep(time.Duration(op.D))
			simrt.Yield(name + ":op")
			s.probe("late-server-operation")
			switch op.N {
			case 0:
				ev := s.begin(rs.r.ID, 'h', 9, "late-send")
				m := &MsgSpec{Tag: 999, Size: 10 + 7000*(int(op.D)%11)}
				err := guard(ev, func() error { return stream.SendMsg(m.Build()) })
				s.end(ev, err)
			case 1:
				ev := s.begin(rs.r.ID, 'h', 9, "late-sethdr")
				err := guard(ev, func() error { return stream.SetHeader(metadata.Pairs("late", "h")) })
				s.end(ev, err)
			case 2:
				ev := s.begin(rs.r.ID, 'h', 9, "late-settlr")
				err := guard(ev, func() error { stream.SetTrailer(metadata.Pairs("late", "t")); return nil })
				s.end(ev, err)
			case 3:
				ev := s.begin(rs.r.ID, 'h', 9, "late-recv")
				err := guard(ev, func() error { return stream.RecvMsg(&grpchantesting.Message{}) })
				s.end(ev, err)
			default:
				ev := s.begin(rs.r.ID, 'h', 9, "late-sendhdr")
				err := guard(ev, func() error { return stream.SendHeader(metadata.Pairs("late", "s")) })
				s.end(ev, err)
			}
		}
	}()
}

// spawnLateUnary: a goroutine the unary handler left behind sets response
// metadata after the handler has returned - too late, and it must be told so.
func (s *Sim) spawnLateUnary(rs *rpcState, ctx context.Context, ops []Op) {
	s.mu.Lock()
	s.liveActors++
	s.mu.Unlock()
	site := fmt.Sprintf("actor:late%d", rs.r.ID)
	simrt.GoSpawn(site)
	go func() {
		simrt.GoStart(site)
		defer simrt.GoEnd()
		simrt.SetName(fmt.Sprintf("late%d", rs.r.ID))
		defer func() {
			s.mu.Lock()
			s.liveActors--
			s.mu.Unlock()
		}()
		for _, op := range ops {
			s.sleep(time.Duration(op.D))
			simrt.Yield(fmt.Sprintf("late%d:op", rs.r.ID))
			s.probe("late-server-operation")
			name, f := "late-sethdr", func() error { return grpc.SetHeader(ctx, metadata.Pairs("late", "h")) }
			switch op.N % 3 {
			case 1:
				name, f = "late-sendhdr", func() error { return grpc.SendHeader(ctx, metadata.Pairs("late", "s")) }
			case 2:
				name, f = "late-settlr", func() error { return grpc.SetTrailer(ctx, metadata.Pairs("late", "t")) }
			}
			ev := s.begin(rs.r.ID, 'h', 9, name)
			err := guard(ev, f)
			s.end(ev, err)
		}
	}()
}

// unaryHandler runs the handler script of a unary RPC. It mirrors generated
// code: decode, then the interceptor (if any) around the rest.
func (s *Sim) unaryHandler(rs *rpcState, ctx context.Context, dec func(any) error, interceptor grpc.UnaryServerInterceptor) (resp any, err error) {
	r := rs.r
	s.handlerEnter(rs, ctx, "unary")
	var respMsg proto.Message
	var lateOps []Op
	defer func() {
		s.handlerExit(rs, err, respMsg)
		if len(lateOps) > 0 {
			s.spawnLateUnary(rs, ctx, lateOps)
		}
	}()
	for _, op := range r.Handler {
		if op.K == "late" {
			lateOps = append(lateOps, op)
		}
	}
	name := fmt.Sprintf("h%d", r.ID)
	ops := r.Handler
	// operations before "decode"
	i := 0
	for ; i < len(ops) && ops[i].K != "decode"; i++ {
		if ops[i].K == "return" {
			break
		}
		simrt.Yield(name + ":" + ops[i].K)
		s.unaryOp(rs, ctx, ops[i])
	}
	req := newDst(i < len(ops) && ops[i].K == "decode" && ops[i].N == 1, r.DynH)
	if i < len(ops) && ops[i].K == "decode" {
		simrt.Yield(name + ":decode")
		ev := s.begin(r.ID, 'h', 0, "recv")
		derr := guard(ev, func() error { return dec(req) })
		if derr == nil {
			ev.GotMsg = proto.Clone(asGen(req))
			ev.Got = digestAny(req)
			ev.obj = req
			s.mu.Lock()
			rs.hRecvObjs = append(rs.hRecvObjs, req)
			var src any
			if len(rs.sentObjs) > 0 {
				src = rs.sentObjs[0]
			}
			s.mu.Unlock()
			if r.Transport == TInproc && src != nil {
				if why := sharesMemory(src, req); why != "" {
					ev.Note = "ALIAS:" + why
				}
			}
		}
		s.end(ev, derr)
		i++
		if derr != nil {
			return nil, derr
		}
	}
	rest := ops[i:]
	body := func(ctx context.Context, _ any) (rv any, rerr error) {
		s.instant(r.ID, 'h', 0, "impl-enter", nil)
		defer func() { s.instant(r.ID, 'h', 0, "impl-exit", func(e *Event) { e.Err = classify(rerr) }) }()
		for _, op := range rest {
			simrt.Yield(name + ":" + op.K)
			if op.K == "return" {
				e := op.St.Err(ctx)
				if op.N == 1 || (e != nil && op.Msg == nil) {
					return nil, e
				}
				if op.Msg == nil {
					op.Msg = &MsgSpec{Kind: 1}
				}
				obj := buildObj(op.Msg, r.DynH)
				if op.N == 2 {
					var nilMsg *grpchantesting.Message
					return nilMsg, e
				}
				s.mu.Lock()
				rs.hSentObjs = append(rs.hSentObjs, obj)
				s.mu.Unlock()
				s.instant(r.ID, 'h', 0, "send", func(ev *Event) { ev.Msg = op.Msg; ev.Err = &ErrRec{Class: "nil"}; ev.Note = "unary response" })
				respMsg = asGen(obj)
				return obj, e
			}
			s.unaryOp(rs, ctx, op)
		}
		return nil, nil
	}
	if interceptor == nil {
		return body(ctx, req)
	}
	info := &grpc.UnaryServerInfo{Server: s, FullMethod: "/" + r.Svc + "/" + r.Meth}
	return interceptor(ctx, req, info, body)
}

func (s *Sim) unaryOp(rs *rpcState, ctx context.Context, op Op) {
	r := rs.r
	switch op.K {
	case "sethdr":
		ev := s.begin(r.ID, 'h', 0, "sethdr")
		ev.MD = kvToMD(op.MD)
		md := kvToMD(op.MD)
		err := guard(ev, func() error { return grpc.SetHeader(ctx, md) })
		s.end(ev, err)
		s.scribble(md, op)
	case "sendhdr":
		ev := s.begin(r.ID, 'h', 0, "sendhdr")
		ev.MD = kvToMD(op.MD)
		md := kvToMD(op.MD)
		err := guard(ev, func() error { return grpc.SendHeader(ctx, md) })
		s.end(ev, err)
		s.scribble(md, op)
	case "settlr":
		ev := s.begin(r.ID, 'h', 0, "settlr")
		ev.MD = kvToMD(op.MD)
		md := kvToMD(op.MD)
		err := guard(ev, func() error { return grpc.SetTrailer(ctx, md) })
		s.end(ev, err)
		s.scribble(md, op)
	case "sleep":
		ev := s.begin(r.ID, 'h', 0, "sleep")
		s.sleep(time.Duration(op.D))
		s.end(ev, nil)
	case "waitctx":
		ev := s.begin(r.ID, 'h', 0, "waitctx")
		s.waitCtx(ctx, ev)
		s.end(ev, nil)
	case "mutate":
		s.mutate(rs, 'h', 0, op.Ref)
	case "hmutmd":
		// the handler scribbles over the metadata object it was given
		s.instant(r.ID, 'h', 0, "hmutmd", nil)
		if md, ok := metadata.FromIncomingContext(ctx); ok {
			for k, vs := range md {
				for i := range vs {
					vs[i] = "MUTATED-BY-HANDLER"
				}
				md[k] = append(vs, "HANDLER-EXTRA")
			}
			md["handler-added-later"] = []string{"x"}
			s.probe("handler-md-mutated")
		}
	case "readmd":
		s.instant(r.ID, 'h', 0, "readmd", func(e *Event) {
			md, _ := metadata.FromIncomingContext(ctx)
			e.MD = mdCopy(md)
		})
	case "nested":
		s.nestedCall(rs, op.N, ctx)
	}
}

// scribble: the handler re-uses the metadata object it has just handed to the
// library (a gRPC server copies it, so this is legitimate): its values are
// overwritten and a key is added. Nothing of that may reach the client.
func (s *Sim) scribble(md metadata.MD, op Op) {
	if op.N != 1 {
		return
	}
	for k, vs := range md {
		for i := range vs {
			vs[i] = "SCRIBBLED"
		}
		md[k] = append(vs, "SCRIBBLED-EXTRA")
	}
	md["scribbled-key"] = []string{"x"}
	s.probe("md-scribbled")
}

// waitCtx blocks until the handler's context is done. So that a context that
// is never cancelled does not wedge the bubble, the wait also ends when the
// run is torn down; that outcome is recorded.
func (s *Sim) waitCtx(ctx context.Context, ev *Event) {
	select {
	case <-ctx.Done():
		ev.Note = "ctx:" + ctx.Err().Error()
	case <-s.endCh:
		ev.Note = "NEVER-CANCELLED"
	}
	simrt.Woken("waitctx")
}


// ---------------------------------------------------------------------------
// message representations: generated (grpchantesting.Message) or dynamic
// (jhump/protoreflect dynamic.Message of the same type). The in-process
// channel hands over objects, not bytes, so both representations (and copies
// from one into the other) are part of what C01/C06 quantify over.

// asGen returns the content of a live object as a fresh or existing generated
// message (never nil).
func asGen(o any) *grpchantesting.Message {
	switch m := o.(type) {
	case *grpchantesting.Message:
		if m == nil {
			return &grpchantesting.Message{}
		}
		return m
	case *dynamic.Message:
		g := &grpchantesting.Message{}
		if m != nil {
			if err := m.ConvertTo(g); err != nil {
				return &grpchantesting.Message{Count: -999999}
			}
		}
		return g
	}
	return &grpchantesting.Message{}
}

func digestAny(o any) string { return digestMsg(asGen(o)) }

func isDyn(o any) bool { _, ok := o.(*dynamic.Message); return ok }

// buildObj builds the object a side hands to the library.
func buildObj(spec *MsgSpec, dyn bool) any {
	m := spec.Build()
	if dyn && spec.Kind != 4 {
		if dm, err := dynamic.AsDynamicMessage(m); err == nil {
			return dm
		}
	}
	return m
}

// newDst builds a receive destination.
func newDst(junk, dyn bool) any {
	var m *grpchantesting.Message
	if junk {
		m = junkMessage()
	} else {
		m = &grpchantesting.Message{}
	}
	if dyn {
		if dm, err := dynamic.AsDynamicMessage(m); err == nil {
			return dm
		}
	}
	return m
}

// mutateDyn scribbles over a dynamic message in place.
func mutateDyn(dm *dynamic.Message) {
	if b, ok := dm.GetFieldByName("payload").([]byte); ok {
		for i := range b {
			b[i] ^= 0xA5
		}
		dm.TrySetFieldByName("payload", append(b, 0xEE))
	}
	if c, ok := dm.GetFieldByName("count").(int32); ok {
		dm.TrySetFieldByName("count", c+1000)
	}
	if hm, ok := dm.GetFieldByName("headers").(map[interface{}]interface{}); ok {
		for k, v := range hm {
			if b, ok := v.([]byte); ok {
				for i := range b {
					b[i] ^= 0x5A
				}
				hm[k] = b
			}
		}
		if len(hm) > 0 {
			dm.TryPutMapFieldByName("headers", "mutated", []byte("yes"))
		}
	}
}
