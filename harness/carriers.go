package sim

import (
	"context"
	"crypto/ed25519"
	"crypto/rand"
	"crypto/tls"
	"crypto/x509"
	"crypto/x509/pkix"
	"fmt"
	"math/big"
	"net"
	"net/http"
	"reflect"
	"sync"
	"time"

	"github.com/fullstorydev/grpchan"
	"google.golang.org/grpc"
	"google.golang.org/grpc/codes"
	"google.golang.org/grpc/credentials/insecure"
	"google.golang.org/grpc/status"
	"google.golang.org/protobuf/proto"
)

func isNilValue(v any) bool {
	if v == nil {
		return true
	}
	rv := reflect.ValueOf(v)
	return rv.Kind() == reflect.Ptr && rv.IsNil()
}

// ---------------------------------------------------------------------------
// TLS: real crypto/tls on the simulated connection. One self-signed Ed25519
// certificate per process, valid 1990-2100 (the bubble's clock starts in 2000).

var tlsOnce sync.Once
var tlsCert tls.Certificate
var tlsPool *x509.CertPool

func tlsMaterial() (tls.Certificate, *x509.CertPool) {
	tlsOnce.Do(func() {
		pub, priv, err := ed25519.GenerateKey(rand.Reader)
		if err != nil {
			panic(err)
		}
		tmpl := &x509.Certificate{SerialNumber: big.NewInt(1), Subject: pkix.Name{CommonName: "sim.test"}, DNSNames: []string{"sim.test"},
			NotBefore: time.Date(1990, 1, 1, 0, 0, 0, 0, time.UTC), NotAfter: time.Date(2100, 1, 1, 0, 0, 0, 0, time.UTC),
			KeyUsage: x509.KeyUsageDigitalSignature | x509.KeyUsageCertSign, ExtKeyUsage: []x509.ExtKeyUsage{x509.ExtKeyUsageServerAuth}, IsCA: true, BasicConstraintsValid: true}
		der, err := x509.CreateCertificate(rand.Reader, tmpl, tmpl, pub, priv)
		if err != nil {
			panic(err)
		}
		cert, _ := x509.ParseCertificate(der)
		tlsPool = x509.NewCertPool()
		tlsPool.AddCert(cert)
		tlsCert = tls.Certificate{Certificate: [][]byte{der}, PrivateKey: priv}
	})
	return tlsCert, tlsPool
}

func (s *Sim) setupTLS(e *Env) {
	cert, pool := tlsMaterial()
	e.hs.TLSConfig = &tls.Config{Certificates: []tls.Certificate{cert}, MinVersion: tls.VersionTLS13}
	e.tr = &http.Transport{TLSClientConfig: &tls.Config{RootCAs: pool, ServerName: "sim.test", MinVersion: tls.VersionTLS13}}
	go e.hs.ServeTLS(e.ln, "", "")
}

// ---------------------------------------------------------------------------
// grpc-go on simnet: the reference carrier, and the only way to obtain a real
// *grpc.ClientConn for C17.

type grpcCarrier struct {
	srv *grpc.Server
	cc  *grpc.ClientConn
	ln  *listener
}

func (g *grpcCarrier) shutdown() {
	if g.cc != nil {
		g.cc.Close()
	}
	if g.srv != nil {
		g.srv.Stop()
	}
	if g.ln != nil {
		g.ln.Close()
	}
}

func (s *Sim) setupGRPC(e *Env, register func(grpc.ServiceRegistrar)) {
	g := &grpcCarrier{}
	g.ln = newListener(&net.TCPAddr{IP: net.IPv4(10, 0, 0, 3), Port: 9090})
	var opts []grpc.ServerOption
	tint := s.prog.Cfg.TIntOnly == "" || s.prog.Cfg.TIntOnly == TGRPC
	if s.prog.Cfg.TUnaryInt && tint {
		opts = append(opts, grpc.UnaryInterceptor(s.serverUnaryInt("T@"+TGRPC)))
	}
	if s.prog.Cfg.TStreamInt && tint {
		opts = append(opts, grpc.StreamInterceptor(s.serverStreamInt("T@"+TGRPC)))
	}
	g.srv = grpc.NewServer(opts...)
	register(g.srv)
	go g.srv.Serve(g.ln)
	cc, err := grpc.Dial("passthrough:///sim.grpc:9090",
		grpc.WithTransportCredentials(insecure.NewCredentials()),
		grpc.WithContextDialer(func(ctx context.Context, addr string) (net.Conn, error) { return s.dial(g.ln, "grpc") }),
		grpc.WithDisableRetry(), grpc.WithDisableServiceConfig())
	if err != nil {
		panic(err)
	}
	g.cc = cc
	e.grpc = g
	e.grpcCC = cc
	e.conns[TGRPC] = s.wrapClient(cc)
}

// ---------------------------------------------------------------------------
// server-side decoration (C16)

func (s *Sim) layerUnary(name string, spec LayerSpec) grpc.UnaryServerInterceptor {
	base := s.serverUnaryInt(name)
	return func(ctx context.Context, req any, info *grpc.UnaryServerInfo, handler grpc.UnaryHandler) (any, error) {
		switch spec.Mode {
		case 1: // short-circuit: the handler is never called
			return base(ctx, req, info, func(ctx context.Context, req any) (any, error) {
				return nil, status.Error(codes.PermissionDenied, "short-circuit by "+name)
			})
		case 2: // fail after the handler ran
			return base(ctx, req, info, func(ctx context.Context, req any) (any, error) {
				_, err := handler(ctx, req)
				if err == nil {
					err = status.Error(codes.DataLoss, "failed after handler by "+name)
				}
				return nil, err
			})
		}
		return base(ctx, req, info, handler)
	}
}

func (s *Sim) layerStream(name string, spec LayerSpec) grpc.StreamServerInterceptor {
	base := s.serverStreamInt(name)
	return func(srv any, ss grpc.ServerStream, info *grpc.StreamServerInfo, handler grpc.StreamHandler) error {
		switch spec.Mode {
		case 1:
			return base(srv, ss, info, func(srv any, ss grpc.ServerStream) error {
				return status.Error(codes.PermissionDenied, "short-circuit by "+name)
			})
		case 2:
			return base(srv, ss, info, func(srv any, ss grpc.ServerStream) error {
				err := handler(srv, ss)
				if err == nil {
					err = status.Error(codes.DataLoss, "failed after handler by "+name)
				}
				return err
			})
		}
		return base(srv, ss, info, handler)
	}
}

type descSnapshot struct {
	name     string
	ht       any
	methods  []string
	streams  []string
	meta     any
	handlers []uintptr
}

func snapDesc(d *grpc.ServiceDesc) descSnapshot {
	sn := descSnapshot{name: d.ServiceName, ht: d.HandlerType, meta: d.Metadata}
	for _, m := range d.Methods {
		sn.methods = append(sn.methods, m.MethodName)
		sn.handlers = append(sn.handlers, reflect.ValueOf(m.Handler).Pointer())
	}
	for _, m := range d.Streams {
		sn.streams = append(sn.streams, fmt.Sprintf("%s/%v/%v", m.StreamName, m.ClientStreams, m.ServerStreams))
		sn.handlers = append(sn.handlers, reflect.ValueOf(m.Handler).Pointer())
	}
	return sn
}

// decorateDesc applies the InterceptServer layers (Via == 0), innermost first
// so that layer 0 ends up outermost, and checks identity / non-modification.
func (s *Sim) decorateDesc(d *grpc.ServiceDesc) *grpc.ServiceDesc {
	layers := s.prog.Cfg.Decor
	if len(layers) == 0 {
		// no interceptors: the original must come back as is
		if got := grpchan.InterceptServer(d, nil, nil); got != d {
			s.violate("C16", "C16|identity|InterceptServer-nil-nil", -1, "InterceptServer(desc, nil, nil) did not return the original description")
		}
		return d
	}
	before := snapDesc(d)
	out := d
	for i := len(layers) - 1; i >= 0; i-- {
		l := layers[i]
		if l.Via != 0 {
			continue
		}
		var u grpc.UnaryServerInterceptor
		var st grpc.StreamServerInterceptor
		if l.Unary {
			u = s.layerUnary(fmt.Sprintf("D%d", i), l)
		}
		if l.Stream {
			st = s.layerStream(fmt.Sprintf("D%d", i), l)
		}
		next := grpchan.InterceptServer(out, u, st)
		if u == nil && st == nil && next != out {
			s.violate("C16", "C16|identity|InterceptServer-nil-nil", -1, "InterceptServer(desc, nil, nil) did not return its argument")
		}
		out = next
	}
	if after := snapDesc(d); !reflect.DeepEqual(before, after) {
		s.violate("C16", "C16|original-description-modified", -1, "decorating service %s modified the original description: before %+v after %+v", d.ServiceName, before, after)
	}
	return out
}

// decorateRegistrar applies the WithInterceptor layers (Via == 1).
func (s *Sim) decorateRegistrar(reg grpc.ServiceRegistrar) grpc.ServiceRegistrar {
	layers := s.prog.Cfg.Decor
	if len(layers) == 0 {
		if got := grpchan.WithInterceptor(reg, nil, nil); !sameRegistrar(got, reg) {
			s.violate("C16", "C16|identity|WithInterceptor-nil-nil", -1, "WithInterceptor(reg, nil, nil) did not return the original registry")
		}
		return reg
	}
	out := reg
	// registry wrappers are outside all InterceptServer layers applied to the
	// description afterwards?  No: WithInterceptor decorates the description at
	// registration time, i.e. on top of whatever description is registered.
	for i := len(layers) - 1; i >= 0; i-- {
		l := layers[i]
		if l.Via != 1 {
			continue
		}
		var u grpc.UnaryServerInterceptor
		var st grpc.StreamServerInterceptor
		if l.Unary {
			u = s.layerUnary(fmt.Sprintf("D%d", i), l)
		}
		if l.Stream {
			st = s.layerStream(fmt.Sprintf("D%d", i), l)
		}
		out = grpchan.WithInterceptor(out, u, st)
	}
	return out
}

func sameRegistrar(a, b grpc.ServiceRegistrar) bool {
	defer func() { recover() }()
	ra, rb := reflect.ValueOf(a), reflect.ValueOf(b)
	if ra.Kind() != rb.Kind() {
		return false
	}
	switch ra.Kind() {
	case reflect.Ptr, reflect.Map:
		return ra.Pointer() == rb.Pointer()
	}
	return a == b
}

// ---------------------------------------------------------------------------
// client-side interceptors (C17)

type optMarker struct{ grpc.EmptyCallOption }

func (s *Sim) clientUnaryInt(name string, spec LayerSpec) grpc.UnaryClientInterceptor {
	return func(ctx context.Context, method string, req, reply any, cc *grpc.ClientConn, invoker grpc.UnaryInvoker, opts ...grpc.CallOption) error {
		id := -1
		if rs := s.rpcByCall(method); rs != nil {
			id = rs.r.ID
		}
		s.instant(id, 'c', 0, "cint-enter", func(e *Event) {
			e.Note = name
			e.Flags = map[string]string{"method": method, "cc": ccState(s, cc), "nopts": fmt.Sprint(len(opts)), "markers": fmt.Sprint(countMarkers(opts))}
			if m, ok := req.(proto.Message); ok {
				e.Got = digestMsg(m)
			}
		})
		var err error
		switch spec.Mode {
		case 1:
			err = status.Error(codes.PermissionDenied, "short-circuit by "+name)
		case 3:
			err = invoker(ctx, method, req, reply, cc, append(opts, optMarker{})...)
		default:
			err = invoker(ctx, method, req, reply, cc, opts...)
		}
		s.instant(id, 'c', 0, "cint-exit", func(e *Event) {
			e.Note = name
			e.Err = classify(err)
		})
		return err
	}
}

func (s *Sim) clientStreamInt(name string, spec LayerSpec) grpc.StreamClientInterceptor {
	return func(ctx context.Context, desc *grpc.StreamDesc, cc *grpc.ClientConn, method string, streamer grpc.Streamer, opts ...grpc.CallOption) (grpc.ClientStream, error) {
		id := -1
		if rs := s.rpcByCall(method); rs != nil {
			id = rs.r.ID
		}
		s.instant(id, 'c', 0, "cint-enter", func(e *Event) {
			e.Note = name
			e.Flags = map[string]string{"method": method, "cc": ccState(s, cc), "nopts": fmt.Sprint(len(opts)), "markers": fmt.Sprint(countMarkers(opts)),
				"cs": fmt.Sprint(desc.ClientStreams), "ss": fmt.Sprint(desc.ServerStreams)}
		})
		var st grpc.ClientStream
		var err error
		switch spec.Mode {
		case 1:
			err = status.Error(codes.PermissionDenied, "short-circuit by "+name)
		case 3:
			st, err = streamer(ctx, desc, cc, method, append(opts, optMarker{})...)
		default:
			st, err = streamer(ctx, desc, cc, method, opts...)
		}
		s.instant(id, 'c', 0, "cint-exit", func(e *Event) {
			e.Note = name
			e.Err = classify(err)
		})
		return st, err
	}
}

func countMarkers(opts []grpc.CallOption) int {
	n := 0
	for _, o := range opts {
		if _, ok := o.(optMarker); ok {
			n++
		}
	}
	return n
}

func ccState(s *Sim, cc *grpc.ClientConn) string {
	switch {
	case cc == nil:
		return "nil"
	case s.env != nil && cc == s.env.grpcCC:
		return "underlying"
	}
	return "other"
}

// foreignConn is a channel decorator that is not the library's own wrapper
// type but implements its WrappedClientConn interface.
type foreignConn struct{ grpc.ClientConnInterface }

func (f *foreignConn) Unwrap() grpc.ClientConnInterface { return f.ClientConnInterface }

var _ grpchan.WrappedClientConn = (*foreignConn)(nil)

func (s *Sim) rpcByCall(method string) *rpcState {
	for _, rs := range s.rpcs {
		if rs.r.Call == method {
			return rs
		}
	}
	return nil
}

// wrapClient applies the client interceptor layers (layer 0 outermost) and
// checks identity and unwrapping.
func (s *Sim) wrapClient(c grpc.ClientConnInterface) grpc.ClientConnInterface {
	layers := s.prog.Cfg.ClientInt
	if got := grpchan.InterceptClientConn(c, nil, nil); got != c {
		s.violate("C17", "C17|identity|InterceptClientConn-nil-nil", -1, "InterceptClientConn(ch, nil, nil) did not return the original channel")
	}
	out := c
	for i := len(layers) - 1; i >= 0; i-- {
		l := layers[i]
		var u grpc.UnaryClientInterceptor
		var st grpc.StreamClientInterceptor
		if l.Unary {
			u = s.clientUnaryInt(fmt.Sprintf("L%d", i), l)
		}
		if l.Stream {
			st = s.clientStreamInt(fmt.Sprintf("L%d", i), l)
		}
		if l.Foreign {
			// an application's own decorator between this layer and the rest
			out = &foreignConn{out}
		}
		next := grpchan.InterceptClientConn(out, u, st)
		if u == nil && st == nil {
			if next != out {
				s.violate("C17", "C17|identity|InterceptClientConn-nil-nil", -1, "InterceptClientConn(ch, nil, nil) did not return its argument")
			}
		} else {
			w, ok := next.(grpchan.WrappedClientConn)
			if !ok {
				s.violate("C17", "C17|unwrap|not-a-WrappedClientConn", -1, "the intercepted channel does not implement WrappedClientConn")
			} else if w.Unwrap() != out {
				s.violate("C17", "C17|unwrap|wrong-channel", -1, "Unwrap() of layer L%d does not yield the channel it wraps", i)
			}
		}
		out = next
	}
	return out
}
