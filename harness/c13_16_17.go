package sim

import (
	"fmt"
	"strings"
)

func init() {
	specialGenerators["c13"] = genC13
	specialGenerators["c16"] = genC16
	specialGenerators["c17"] = genC17
	extraOracles = append(extraOracles, oracleC13, oracleC16, oracleC17)
}

// simple well-behaved scripts for configuration-centred profiles
func (g *gen) plainScripts(r *RPC) {
	switch r.Kind {
	case KUnary:
		r.Client = []Op{{K: "invoke", Msg: g.msg()}}
		r.Handler = []Op{{K: "decode"}, {K: "return", Msg: g.msg(), St: g.maybeStatus()}}
		if r.Handler[1].St != nil {
			r.Handler[1].Msg = nil
		}
	case KServerStream:
		r.Client = []Op{{K: "send", Msg: g.msg()}, {K: "closesend"}, {K: "recvall"}}
		r.Handler = []Op{{K: "recv"}, {K: "send", Msg: g.msg()}, {K: "send", Msg: g.msg()}, {K: "return", St: g.maybeStatus()}}
	case KClientStream:
		r.Client = []Op{{K: "send", Msg: g.msg()}, {K: "send", Msg: g.msg()}, {K: "closesend"}, {K: "recv"}}
		st := g.maybeStatus()
		r.Handler = []Op{{K: "recvall"}}
		if st == nil {
			r.Handler = append(r.Handler, Op{K: "send", Msg: g.msg()})
		}
		r.Handler = append(r.Handler, Op{K: "return", St: st})
	default:
		r.Client = []Op{{K: "send", Msg: g.msg()}, {K: "closesend"}, {K: "recvall"}}
		r.Handler = []Op{{K: "recvall"}, {K: "send", Msg: g.msg()}, {K: "return", St: g.maybeStatus()}}
	}
}

// ---------------------------------------------------------------------------
// C13

func genC13(g *gen, seed int64) *Program {
	p := &Program{Profile: "c13", Seed: seed}
	p.Cfg.Policy = g.pick(3)
	p.Cfg.NetEager = g.p(0.6)
	p.Cfg.TLS = g.p(0.5)
	p.Cfg.Host6 = !p.Cfg.TLS && g.p(0.3)
	g.k.pErr = 0.2
	n := 1 + g.pick(2)
	for id := 0; id < n; id++ {
		r := &RPC{ID: id, Svc: "sim.S", Meth: fmt.Sprintf("M%d", id)}
		r.Call = "/" + r.Svc + "/" + r.Meth
		r.Transport = []string{THTTP, THTTP, TInproc}[g.pick(3)]
		r.Kind = []int{KUnary, KServerStream, KClientStream, KBidi}[g.pick(4)]
		g.plainScripts(r)
		if g.p(0.8) {
			r.Creds = &CredSpec{Secure: g.p(0.5), Fail: g.p(0.12), Canon: g.p(0.3)}
			switch g.pick(4) {
			case 0: // empty map
			case 1:
				r.Creds.MD = []KV{{K: "authorization", V: "Bearer tok"}}
			case 2:
				r.Creds.MD = g.md(3)
			case 3:
				r.Creds.MD = []KV{{K: "k1", V: "from-creds"}, {K: "zz9", V: "z"}}
			}
		}
		if g.p(0.6) {
			r.OutMD = g.md(3)
			if g.p(0.5) {
				r.OutMD = append(r.OutMD, KV{K: "k1", V: "from-caller"})
			}
		}
		r.PeerOpt = g.p(0.7)
		if g.p(0.4) {
			r.NHdrOpts = 1
		}
		if r.Creds != nil && g.p(0.3) {
			// a second per-RPC-credentials option earlier in the option list: the
			// later option is the one in effect (as with grpc-go), but a
			// credential that requires transport security must not reach a
			// plaintext wire in any case
			r.Creds0 = &CredSpec{Secure: g.p(0.6), MD: []KV{{K: "x-cred0", V: RawStr(fmt.Sprintf("secret0-%d", id))}}}
		}
		p.RPCs = append(p.RPCs, r)
	}
	return p
}

func (s *Sim) wireContains(needle string) bool {
	s.mu.Lock()
	conns := append([]*connPair(nil), s.conns...)
	s.mu.Unlock()
	for _, p := range conns {
		p.c2s.mu.Lock()
		rec := string(p.c2s.wrote)
		p.c2s.mu.Unlock()
		if strings.Contains(rec, needle) {
			return true
		}
	}
	return false
}

func (s *Sim) wireHasPath(path string) bool {
	s.mu.Lock()
	conns := append([]*connPair(nil), s.conns...)
	s.mu.Unlock()
	for _, p := range conns {
		p.c2s.mu.Lock()
		rec := string(p.c2s.wrote)
		p.c2s.mu.Unlock()
		if strings.Contains(rec, path+" HTTP/1.1") {
			return true
		}
	}
	return false
}

func oracleC13(s *Sim) {
	if s.prog.Profile != "c13" {
		return
	}
	httpRPCs := 0
	for _, r := range s.prog.RPCs {
		if r.Transport == THTTP {
			httpRPCs++
		}
	}
	for _, v := range s.views() {
		r := v.r
		if !v.rs.started {
			continue
		}
		s.stats.Probes["C13-relevant"]++
		first := v.newstream
		if v.invoke != nil {
			first = v.invoke
		}
		if first == nil || first.RSeq == 0 {
			continue
		}
		tls := s.prog.Cfg.TLS
		shape := fmt.Sprintf("%s|tls=%v", map[bool]string{true: "unary", false: "stream"}[r.Kind == KUnary], tls)
		if r.Creds0 != nil && r.Creds0.Secure && r.Transport == THTTP && !tls {
			secret := string(r.Creds0.MD[0].V)
			leaked := ""
			if v.hStart != nil {
				for _, vals := range v.hStart.MD {
					for _, x := range vals {
						if x == secret {
							leaked = "the handler's incoming metadata"
						}
					}
				}
			}
			if leaked == "" && s.wireContains(secret) {
				leaked = "the bytes written to the plaintext connection"
			}
			if leaked != "" {
				v.fail("C13", "secure-credential-on-plaintext-wire|"+shape, "a per-RPC credential that requires transport security contributed metadata (%q) that appears in %s although the base URL is http", secret, leaked)
			}
		}
		if r.Creds != nil {
			mustFail := r.Creds.Fail || (r.Creds.Secure && r.Transport == THTTP && !tls)
			why := "credential-error"
			if !r.Creds.Fail {
				why = "insecure-transport"
			}
			if r.Creds.Secure && r.Transport == THTTP && !tls {
				why = "insecure-transport"
			}
			if mustFail {
				s.stats.Probes["c13-must-fail"]++
				if first.Err.IsNil() {
					v.fail("C13", "call-not-refused|"+why+"|"+shape, "credentials (secure=%v fail=%v md=%d) on %s tls=%v: the call was started (%s returned nil)", r.Creds.Secure, r.Creds.Fail, len(r.Creds.MD), r.Transport, tls, first.Op)
				}
				if v.rs.handlerEntered > 0 {
					v.fail("C13", "handler-ran-for-refused-call|"+why+"|"+shape, "the handler ran although the credentials must be refused")
				}
				if r.Transport == THTTP && !tls && s.wireHasPath(r.Call) {
					v.fail("C13", "request-on-the-wire|"+why+"|"+shape, "a request for %s was written to the (plaintext) connection although the call must fail before any request is issued", r.Call)
				}
				if r.Transport == THTTP && httpRPCs == 1 && s.stats.Dials > 0 && why == "insecure-transport" {
					v.fail("C13", "connection-dialled|"+why+"|"+shape, "%d connection(s) were dialled although the call must fail before any request is issued", s.stats.Dials)
				}
				continue
			}
			// credentials accepted: their metadata reaches the handler, merged with the caller's
			if v.hStart != nil {
				if ok, why := v.incomingOK(v.hStart.MD); !ok {
					v.fail("C13", "credential-metadata|"+shape, "handler's incoming metadata: %s", why)
				}
			} else if first.Err.IsNil() && v.terminal != nil && v.terminal != first {
				// the call went out but never reached the handler
			}
		}
		if v.hStart == nil {
			continue
		}
		// the context of the client's stream is the caller's own: what the
		// credentials contributed to the request is not in it (it would travel
		// on to whatever the application uses that context for next)
		if v.newstream != nil && r.Creds != nil && !r.Creds.Fail && v.newstream.Flags["ctx-md-has-creds"] != "" {
			v.fail("C13", "stream-context-carries-credentials|"+shape, "stream.Context() has outgoing metadata %s, which is what the per-RPC credentials supplied, not what the caller attached", v.newstream.Flags["ctx-md-has-creds"])
		}
		if leak := v.hStart.Flags["clientctx-md-has-creds"]; leak != "" && !r.Creds.Fail {
			v.fail("C13", "client-context-carries-credentials|"+shape, "inprocgrpc.ClientContext(handler ctx) has outgoing metadata %s, which is what the per-RPC credentials supplied, not what the caller attached", leak)
		}
		// peer as the handler sees it
		hp := v.hStart.Flags["peer"]
		switch r.Transport {
		case TInproc:
			if hp != "inproc/0|inproc" {
				v.fail("C13", "handler-peer|inproc", "handler's peer is %q", hp)
			}
		case THTTP:
			wantAuth := "<nil>"
			if tls {
				wantAuth = "tls("
			}
			if !strings.HasPrefix(hp, "tcp/10.0.0.1:") || !strings.Contains(hp, "|"+wantAuth) {
				v.fail("C13", "handler-peer|"+shape, "handler's peer is %q, expected the client's address and TLS info: %v", hp, tls)
			}
		}
		// peer as the caller's grpc.Peer option sees it
		if r.PeerOpt {
			var last *Event
			for _, ev := range v.ev {
				if ev.Side == 'c' && ev.Flags["peer"] != "" && ev.RSeq != 0 {
					last = ev
				}
			}
			if last == nil {
				continue
			}
			cp := last.Flags["peer"]
			switch r.Transport {
			case TInproc:
				if cp != "inproc/0|inproc" {
					v.fail("C13", "caller-peer|inproc", "grpc.Peer target is %q", cp)
				}
			case THTTP:
				host := "sim.test:80"
				wantAuth := "|<nil>"
				if tls {
					host = "sim.test:443"
					wantAuth = "|tls("
				} else if s.prog.Cfg.Host6 {
					host = "[fd00::2]:80"
				}
				if !strings.HasPrefix(cp, "tcp/"+host) || !strings.Contains(cp, wantAuth) {
					v.fail("C13", "caller-peer|"+shape, "grpc.Peer target after %s is %q, expected address %s and TLS info: %v", last.Op, cp, host, tls)
				}
			}
		}
	}
}

// ---------------------------------------------------------------------------
// C16

func (g *gen) layer(server bool) LayerSpec {
	l := LayerSpec{Unary: g.p(0.7), Stream: g.p(0.7)}
	if server && g.p(0.4) {
		l.Via = 1
	}
	switch x := g.rng.Float64(); {
	case x < 0.12:
		l.Mode = 1
	case x < 0.2:
		l.Mode = 2
	case x < 0.3 && !server:
		l.Mode = 3
	}
	if !server && g.p(0.25) {
		l.Foreign = true
	}
	return l
}

func genC16(g *gen, seed int64) *Program {
	g.k.pErr = 0.25
	g.k.pCancel = 0.2
	p := &Program{Profile: "c16", Seed: seed}
	p.Cfg.Policy = g.pick(3)
	p.Cfg.NetEager = g.p(0.6)
	p.Cfg.TUnaryInt = g.p(0.5)
	p.Cfg.TStreamInt = g.p(0.5)
	p.Cfg.UseHandle = g.p(0.4)
	for i := 0; i < g.pick(3); i++ {
		p.Cfg.Decor = append(p.Cfg.Decor, g.layer(true))
	}
	n := 1 + g.pick(3)
	total := 0
	for id := 0; id < n; id++ {
		r := &RPC{ID: id, Svc: []string{"sim.S", "sim.T"}[g.pick(2)], Meth: fmt.Sprintf("M%d", id)}
		r.Call = "/" + r.Svc + "/" + r.Meth
		r.Transport = []string{TInproc, THTTP, TGRPC}[g.pick(3)]
		r.Kind = []int{KUnary, KServerStream, KClientStream, KBidi}[g.pick(4)]
		g.plainScripts(r)
		total += g.estLen(r)
		p.RPCs = append(p.RPCs, r)
	}
	for i := 0; i < g.pick(4); i++ {
		p.Cfg.Extra = append(p.Cfg.Extra, ExtraMethod{Svc: "sim.S", Meth: fmt.Sprintf("X%d", i), Kind: g.pick(4)})
	}
	// the same registered method reached through two different carriers
	if len(p.RPCs) >= 2 && g.p(0.5) {
		a, b := p.RPCs[0], p.RPCs[1]
		if a.Transport == b.Transport {
			for _, t := range []string{TInproc, THTTP, TGRPC} {
				if t != a.Transport {
					b.Transport = t
					break
				}
			}
		}
		b.Svc, b.Meth, b.Call, b.Kind = a.Svc, a.Meth, a.Call, a.Kind
		b.Client, b.Handler = nil, nil
		g.plainScripts(b)
		a.OutMD = append(a.OutMD, KV{K: "x-sim-rpc", V: RawStr(fmt.Sprint(a.ID))})
		b.OutMD = append(b.OutMD, KV{K: "x-sim-rpc", V: RawStr(fmt.Sprint(b.ID))})
	}
	// transport-level interceptors on one carrier only, while the decorated
	// descriptions are shared by all carriers
	if g.p(0.4) {
		p.Cfg.TIntOnly = p.RPCs[g.pick(len(p.RPCs))].Transport
	}
	for _, r := range p.RPCs {
		// no cancellation on the grpc-go reference carrier: its internal
		// selects (data vs. reset, both ready) are decided by the Go runtime,
		// not by the simulator, and would not replay
		if r.Transport != TGRPC && g.p(g.k.pCancel) {
			p.Faults = append(p.Faults, Fault{Kind: "cancel", RPC: r.ID, Step: g.pick(total + 5)})
		}
	}
	return p
}

func oracleC16(s *Sim) {
	if s.prog.Profile != "c16" {
		return
	}
	cfg := &s.prog.Cfg
	for _, v := range s.views() {
		r := v.r
		unary := r.Kind == KUnary
		// what each interceptor passes onward (a context derived from the one
		// it was given) is what the next one, and finally the handler, gets
		var entered []string
		for _, ev := range v.ev {
			if ev.Side != 'h' {
				continue
			}
			if ev.Op == "int-enter" || ev.Op == "hstart" {
				want := strings.Join(entered, ",")
				if got := ev.Flags["sees"]; got != want {
					who := "the handler"
					if ev.Op == "int-enter" {
						who = "interceptor " + ev.Note
					}
					v.fail("C16", "onward-context-lost|"+ev.Op, "%s was given a context carrying the marks [%s] of the interceptors before it; expected [%s] (what each interceptor passes onward must reach the next)", who, got, want)
					break
				}
				if ev.Op == "int-enter" {
					entered = append(entered, ev.Note)
				}
			}
		}
		// expected chain, outermost first
		type lay struct {
			name string
			mode int
		}
		var chain []lay
		if ((unary && cfg.TUnaryInt) || (!unary && cfg.TStreamInt)) && (cfg.TIntOnly == "" || cfg.TIntOnly == r.Transport) {
			chain = append(chain, lay{"T@" + r.Transport, 0})
		}
		// WithInterceptor layers wrap the description at registration time and
		// therefore sit outside the InterceptServer layers applied before
		// The harness composes the layers like this: registry wrappers
		// (WithInterceptor) are stacked so that wrapper 0 is the outermost
		// registry; each wrapper decorates the description it is handed and
		// passes it inward, so the wrapper applied last ends up as the
		// outermost interceptor: descending index. The InterceptServer layers
		// were applied to the description before that, layer 0 last, hence
		// ascending index, inside all registry layers.
		for i := len(cfg.Decor) - 1; i >= 0; i-- {
			l := cfg.Decor[i]
			if l.Via == 1 && ((unary && l.Unary) || (!unary && l.Stream)) {
				chain = append(chain, lay{fmt.Sprintf("D%d", i), l.Mode})
			}
		}
		for i, l := range cfg.Decor {
			if l.Via == 0 && ((unary && l.Unary) || (!unary && l.Stream)) {
				chain = append(chain, lay{fmt.Sprintf("D%d", i), l.Mode})
			}
		}
		var log []string
		var got []*Event
		for _, ev := range v.ev {
			switch ev.Op {
			case "int-enter":
				log = append(log, "+"+ev.Note)
				got = append(got, ev)
			case "int-exit":
				log = append(log, "-"+ev.Note)
			case "impl-enter":
				log = append(log, "H")
			case "impl-exit":
				log = append(log, "h")
			}
		}
		if len(log) == 0 {
			continue // the call never reached the server
		}
		s.stats.Probes["C16-relevant"]++
		// build the expected log
		var want []string
		reach := true
		depth := 0
		for _, l := range chain {
			want = append(want, "+"+l.name)
			depth++
			if l.mode == 1 {
				reach = false
				break
			}
		}
		if reach {
			want = append(want, "H", "h")
		}
		for i := depth - 1; i >= 0; i-- {
			want = append(want, "-"+chain[i].name)
		}
		ws, gs := strings.Join(want, " "), strings.Join(log, " ")
		if ws != gs {
			clause := "order-or-count"
			switch {
			case strings.Count(gs, "H") > 1:
				clause = "handler-ran-twice"
			case !reach && strings.Contains(gs, "H"):
				clause = "handler-ran-despite-short-circuit"
			case reach && !strings.Contains(gs, "H"):
				clause = "handler-did-not-run"
			case len(log) > len(want):
				clause = "interceptor-ran-more-than-once"
			case len(log) < len(want):
				clause = "interceptor-skipped"
			}
			v.fail("C16", clause+"|"+map[bool]string{true: "unary", false: "stream"}[unary], "interceptor/handler event log is [%s], expected [%s] (transport interceptor first, then decorating layers outermost first, then the handler)", gs, ws)
		}
		// requests, responses and errors pass through unchanged: with
		// pass-through layers only (and nothing disturbing the call) the caller
		// gets the handler's response and status, and every layer sees the same
		// on its way out
		allPass := true
		for _, l := range chain {
			if l.mode != 0 {
				allPass = false
			}
		}
		if allPass && len(chain) > 0 && r.Transport != TGRPC && v.hReturn != nil && v.terminal != nil && v.hReturn.Seq < v.terminal.RSeq && !v.disturbedBefore(v.terminal.RSeq) && !v.clientSideFailure() && v.wireLimit() == "" {
			if !(v.single && (v.responsesProduced() != 1 || len(v.hSend) != 1)) {
				exp := expectedFrom(v.hReturn.Err)
				if good, what := exp.matches(v.terminal.Err); !good {
					v.fail("C16", "result-altered|status-"+what, "with pass-through interceptors only, the handler returned %s but the caller got %s", v.hReturn.Err, v.terminal.Err)
				}
				if unary && v.invoke != nil && v.invoke.Err.IsNil() && len(v.hSend) == 1 && !msgEqual(v.invoke.GotMsg, v.hSend[0].Msg) {
					v.fail("C16", "result-altered|response", "with pass-through interceptors only, the caller's response %s is not the handler's (tag %d)", v.invoke.Got, tagOf(v.hSend[0].Msg))
				}
			}
			for _, ev := range v.ev {
				if ev.Op == "int-exit" && ev.Err != nil && ev.Err.String() != v.hReturn.Err.String() && v.hReturn.Err.Class != "panic" {
					v.fail("C16", "error-altered-between-layers", "interceptor %s saw the result %s on the way out, the handler returned %s", ev.Note, ev.Err, v.hReturn.Err)
				}
			}
		}
		for _, ev := range got {
			if ev.Flags["method"] != "/"+r.Svc+"/"+r.Meth {
				v.fail("C16", "full-method", "interceptor %s was told method %q, expected %q", ev.Note, ev.Flags["method"], "/"+r.Svc+"/"+r.Meth)
			}
			if !unary {
				wcs := fmt.Sprint(r.Kind == KClientStream || r.Kind == KBidi)
				wss := fmt.Sprint(r.Kind == KServerStream || r.Kind == KBidi)
				if ev.Flags["cs"] != wcs || ev.Flags["ss"] != wss {
					v.fail("C16", "stream-flags", "interceptor %s was told IsClientStream=%s IsServerStream=%s, expected %s %s", ev.Note, ev.Flags["cs"], ev.Flags["ss"], wcs, wss)
				}
			}
			if unary && v.invoke != nil && ev.Got != "" && ev.Got != digestMsg(v.invoke.Msg.Build()) {
				v.fail("C16", "request-altered", "interceptor %s saw request %s, the caller sent %s", ev.Note, ev.Got, digestMsg(v.invoke.Msg.Build()))
			}
		}
	}
}

// ---------------------------------------------------------------------------
// C17

func genC17(g *gen, seed int64) *Program {
	g.k.pErr = 0.2
	p := &Program{Profile: "c17", Seed: seed}
	p.Cfg.Policy = g.pick(3)
	p.Cfg.NetEager = g.p(0.6)
	for i := 0; i < g.pick(5); i++ {
		p.Cfg.ClientInt = append(p.Cfg.ClientInt, g.layer(false))
	}
	n := 1 + g.pick(3)
	total := 0
	for id := 0; id < n; id++ {
		r := &RPC{ID: id, Svc: "sim.S", Meth: fmt.Sprintf("M%d", id)}
		r.Call = "/" + r.Svc + "/" + r.Meth
		r.Transport = []string{TInproc, THTTP, TGRPC, TGRPC}[g.pick(4)]
		r.Kind = []int{KUnary, KServerStream, KClientStream, KBidi}[g.pick(4)]
		g.plainScripts(r)
		if g.p(0.5) {
			r.NHdrOpts = 1 + g.pick(2)
		}
		total += g.estLen(r)
		p.RPCs = append(p.RPCs, r)
	}
	if g.p(0.2) && p.RPCs[0].Transport != TGRPC {
		p.Faults = append(p.Faults, Fault{Kind: "cancel", RPC: 0, Step: g.pick(total + 5)})
	}
	return p
}

func oracleC17(s *Sim) {
	if s.prog.Profile != "c17" {
		return
	}
	layers := s.prog.Cfg.ClientInt
	for _, v := range s.views() {
		r := v.r
		if !v.rs.started {
			continue
		}
		unary := r.Kind == KUnary
		var want []string
		reach := true
		markers := 0
		depth := 0
		type exp struct {
			name    string
			markers int
		}
		var exps []exp
		for i, l := range layers {
			if (unary && l.Unary) || (!unary && l.Stream) {
				name := fmt.Sprintf("L%d", i)
				want = append(want, "+"+name)
				exps = append(exps, exp{name, markers})
				depth++
				if l.Mode == 1 {
					reach = false
					break
				}
				if l.Mode == 3 {
					markers++
				}
			}
		}
		for i := len(exps) - 1; i >= 0; i-- {
			want = append(want, "-"+exps[i].name)
		}
		var log []string
		var enters []*Event
		for _, ev := range v.ev {
			switch ev.Op {
			case "cint-enter":
				log = append(log, "+"+ev.Note)
				enters = append(enters, ev)
			case "cint-exit":
				log = append(log, "-"+ev.Note)
			}
		}
		first := v.newstream
		if unary {
			first = v.invoke
		}
		if first == nil || first.RSeq == 0 {
			continue
		}
		s.stats.Probes["C17-relevant"]++
		ws, gs := strings.Join(want, " "), strings.Join(log, " ")
		if ws != gs {
			v.fail("C17", "order-or-count|"+map[bool]string{true: "unary", false: "stream"}[unary], "client interceptor event log is [%s], expected [%s] (outermost first, once each)", gs, ws)
		}
		if !reach && v.rs.handlerEntered > 0 {
			v.fail("C17", "call-went-through-despite-short-circuit", "an interceptor short-circuited the call but the handler ran")
		}
		if !reach && first.Err.IsNil() {
			v.fail("C17", "short-circuit-result-lost", "an interceptor returned an error but the call reports %s", first.Err)
		}
		wantCC := "nil"
		if r.Transport == TGRPC {
			wantCC = "underlying"
		}
		for i, ev := range enters {
			if ev.Flags["method"] != r.Call {
				v.fail("C17", "method-altered", "interceptor %s was given method %q, the caller used %q", ev.Note, ev.Flags["method"], r.Call)
			}
			if ev.Flags["cc"] != wantCC {
				v.fail("C17", fmt.Sprintf("connection-argument|%s|depth-%d|want-%s|got-%s", map[bool]string{true: "unary", false: "stream"}[unary], len(layers)-layerIndex(ev.Note), wantCC, ev.Flags["cc"]), "interceptor %s (layer %s of %d over a %s channel) was given cc=%s, expected %s", ev.Note, ev.Note, len(layers), r.Transport, ev.Flags["cc"], wantCC)
			}
			if i < len(exps) {
				base := r.NHdrOpts + r.NTlrOpts
				if r.PeerOpt {
					base++
				}
				if r.Creds != nil {
					base++
				}
				if ev.Flags["nopts"] != fmt.Sprint(base+exps[i].markers) || ev.Flags["markers"] != fmt.Sprint(exps[i].markers) {
					v.fail("C17", "options-altered", "interceptor %s was given %s options (%s added by outer layers), expected %d (%d)", ev.Note, ev.Flags["nopts"], ev.Flags["markers"], base+exps[i].markers, exps[i].markers)
				}
			}
			if unary && v.invoke != nil && ev.Got != digestMsg(v.invoke.Msg.Build()) {
				v.fail("C17", "request-altered", "interceptor %s saw request %s", ev.Note, ev.Got)
			}
			if !unary {
				wcs := fmt.Sprint(r.Kind == KClientStream || r.Kind == KBidi)
				wss := fmt.Sprint(r.Kind == KServerStream || r.Kind == KBidi)
				if ev.Flags["cs"] != wcs || ev.Flags["ss"] != wss {
					v.fail("C17", "stream-desc-altered", "interceptor %s was given a stream description with ClientStreams=%s ServerStreams=%s", ev.Note, ev.Flags["cs"], ev.Flags["ss"])
				}
			}
		}
		// results pass through: with layers that call onward, the caller gets
		// what the wrapped channel gave (judged like C02 on the same history)
		if reach && len(exps) > 0 && v.hReturn != nil && v.terminal != nil && v.hReturn.Seq < v.terminal.RSeq && !v.disturbedBefore(v.terminal.RSeq) && !v.clientSideFailure() && v.wireLimit() == "" && r.Transport != TGRPC {
			if !(v.single && (v.responsesProduced() != 1 || len(v.hSend) != 1)) {
				exp := expectedFrom(v.hReturn.Err)
				if good, what := exp.matches(v.terminal.Err); !good {
					v.fail("C17", "result-altered|status-"+what, "through %d client interceptor layer(s) the handler's %s reached the caller as %s", len(exps), v.hReturn.Err, v.terminal.Err)
				}
				if unary && v.invoke != nil && v.invoke.Err.IsNil() && len(v.hSend) == 1 && !msgEqual(v.invoke.GotMsg, v.hSend[0].Msg) {
					v.fail("C17", "result-altered|response", "through %d client interceptor layer(s) the caller's response %s is not the handler's (tag %d)", len(exps), v.invoke.Got, tagOf(v.hSend[0].Msg))
				}
			}
		}
	}
}

func layerIndex(name string) int {
	var i int
	fmt.Sscanf(name, "L%d", &i)
	return i
}
