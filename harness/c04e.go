package sim

import (
	"fmt"
	"runtime"
	"testing"
	"time"
)

// Profile "c04e": the instant at which the caller's context ends, placed at
// every scheduler step. For each generated fault-free program the baseline
// run (its schedule tape fixed by the program's seed) is executed first to
// learn its length; the same program is then re-run under the same tape once
// per step index i with "cancel RPC r at step i" and, for calls that carry a
// deadline, with "the deadline passes at step i". Firing a planned fault
// consumes no schedule choice, so every re-run follows the baseline exactly up
// to step i: for that program and baseline schedule the enumeration of
// cancellation positions is complete (before the call starts, between any two
// frames, while either side is inside the library, after the handler
// returned, after the call ended).

func init() {
	specialWorkers["c04e"] = workerC04e
}

func c04eKnobs() knobs {
	k := profileKnobs("c04")
	k.pCancel, k.pDeadline, k.pAdvance, k.pCut = 0, 0, 0, 0
	k.maxRPC = 2
	k.maxMsgs = 3
	k.pBig = 0
	// what a cancel can tear apart: results that consist of several parts
	// (status, headers, trailers, messages)
	k.pErr, k.pMD = 0.5, 0.7
	return k
}

func workerC04e(t *testing.T, out *WorkerOut) {
	start := time.Now()
	k := c04eKnobs()
	progs, cases := 0, 0
	shapes := map[string]bool{}
	record := func(res *Result, seed int64) {
		out.Runs++
		out.Steps += int64(res.Stats.Steps)
		out.VirtualNs += res.Stats.VirtualNs
		for k, v := range res.Stats.Faults {
			out.Faults[k] += v
		}
		for k, v := range res.Stats.Probes {
			out.Probes[k] += v
		}
		if res.Stats.HitCap {
			out.Capped++
		}
		out.Shapes[res.Shape]++
		if *flagHashes {
			if out.Hashes == nil {
				out.Hashes = map[string]string{}
			}
			out.Hashes[fmt.Sprint(out.Runs)] = res.TraceHash
		}
		if nontrivial(*flagProp, res) {
			out.NonTriv++
			shapes[res.Shape] = true
		}
		if res.Fatal != "" {
			out.Fatal = append(out.Fatal, fmt.Sprintf("seed %d: %s", seed, res.Fatal))
		}
		mine := false
		for _, v := range res.Viols {
			if *flagProp == "" || v.Prop == *flagProp {
				mine = true
			} else {
				out.Notes[v.Sig]++
			}
		}
		if mine && keepFailure(len(out.Failures), res) {
			res.HistText = res.histText()
			out.Failures = append(out.Failures, res)
		}
		if len(out.Samples) < 1 && out.Runs%131 == 17 {
			res.HistText = res.histText()
			out.Samples = append(out.Samples, res)
		}
	}
	budgetLeft := func() bool {
		if *flagBudget > 0 {
			return time.Since(start) <= *flagBudget
		}
		return progs < 3
	}
	for pi := 0; budgetLeft(); pi++ {
		seed := *flagSeed + int64(pi)
		kk := k
		if seed%2 == 1 {
			// every other program: one single-response in-process call whose
			// handler fails and sets metadata - a result in several frames,
			// each of which a cancel can separate from the others
			kk.kinds, kk.transports, kk.pErr, kk.pMD, kk.maxRPC = []int{KUnary, KUnary, KUnary, KClientStream}, []string{TInproc}, 0.5, 1, 1
		}
		g := &gen{rng: newRand(seed ^ 0x5DEECE66D), k: kk}
		base := g.program("c04e", seed)
		base.Faults = nil
		focus := seed%2 == 1
		if focus {
			r := base.RPCs[0]
			if r.NHdrOpts == 0 {
				r.NHdrOpts = 1
			}
			if r.NTlrOpts == 0 {
				r.NTlrOpts = 1
			}
			// headers and trailers are set for certain, just before the handler returns
			if n := len(r.Handler); n > 0 && r.Handler[n-1].K == "return" {
				extra := []Op{{K: "sethdr", MD: []KV{{K: "k1", V: "focus-h"}}}, {K: "settlr", MD: []KV{{K: "k2", V: "focus-t"}, {K: "data-bin", V: RawStr([]byte{0, 255, 10})}}}}
				r.Handler = append(r.Handler[:n-1], append(extra, r.Handler[n-1])...)
			}
		}
		// half of the programs carry a deadline on their first call, far enough
		// away that it never passes by itself
		withDeadline := seed%2 == 0
		if withDeadline {
			base.RPCs[0].DeadlineN = int64(3600e9) + int64(seed%1000)
		} else {
			for _, r := range base.RPCs {
				r.DeadlineN = 0
			}
		}
		tapeSeed := seed*1000003 + 7
		res := RunOne(t, cloneProgram(base), NewSearchTape(tapeSeed), false)
		record(res, seed)
		runtime.GC()
		progs++
		if res.Fatal != "" || res.Stats.HitCap || hasProp(res.Viols, *flagProp) {
			continue
		}
		steps := res.Stats.Steps
		for i := 0; i <= steps+1 && budgetLeft(); i++ {
			if focus && len(res.Stats.HReturnStep) > 0 && res.Stats.HReturnStep[0] > 0 && i < res.Stats.HReturnStep[0]-3 {
				continue // these programs are about the end of the call
			}
			for target := range base.RPCs {
				p := cloneProgram(base)
				p.Faults = []Fault{{Kind: "cancel", RPC: target, Step: i, N: (i + target) % 2}}
				r := RunOne(t, p, NewSearchTape(tapeSeed), false)
				record(r, seed)
				cases++
				runtime.GC()
				// the same cancel position again, with other schedules from
				// that point on (which side of a select wins once the context
				// is done, who runs first, ...)
				nalt := int64(2)
				if target < len(res.Stats.HReturnStep) && target < len(res.Stats.CEndStep) {
					// while the result is on its way to the caller (handler
					// returned, client not finished) a cancel races with
					// completion: many more schedules from there on
					if hr, ce := res.Stats.HReturnStep[target], res.Stats.CEndStep[target]; hr > 0 && i >= hr-2 && (ce == 0 || i <= ce+1) {
						nalt = 12
						if focus {
							nalt = 40
						}
					}
				}
				for alt := int64(1); alt <= nalt && budgetLeft(); alt++ {
					p2 := cloneProgram(base)
					p2.Faults = []Fault{{Kind: "cancel", RPC: target, Step: i}}
					tp := NewSearchTape(tapeSeed)
					tp.ForkSeed = tapeSeed*31 + int64(i)*7 + alt
					r2 := RunOne(t, p2, tp, false)
					record(r2, seed)
					cases++
					runtime.GC()
				}
			}
			if withDeadline {
				p := cloneProgram(base)
				p.Faults = []Fault{{Kind: "deadline", RPC: 0, Step: i}}
				r := RunOne(t, p, NewSearchTape(tapeSeed), false)
				record(r, seed)
				cases++
				runtime.GC()
			}
		}
	}
	out.Extra = map[string]any{
		"c04e_enumeration":           "for each generated fault-free program (1-2 calls, both transports, all kinds): cancel of each call at every scheduler step index 0..S+1 of the baseline run (S = its length), each position under the baseline's schedule and under 2 (12 while the result is on its way to the caller) schedules that fork from it at the moment of the cancel; every other program is a single in-process single-response call with a failing handler that sets headers and trailers, cancelled only around the end of the call, 40 forks per position; and for programs with a deadline the deadline passing at every step index; programs are drawn per worker until the budget ends",
		"c04e_programs_this_worker":  progs,
		"c04e_cases_this_worker":     cases,
		"exhaustive_part":            true,
	}
	for k := range shapes {
		out.NTShapes = append(out.NTShapes, k)
	}
}
