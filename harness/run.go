package sim

import (
	"crypto/sha256"
	"encoding/hex"
	"fmt"
	"math/rand"
	"os"
	"regexp"
	"runtime"
	"sort"
	"strings"
	"testing"
	"testing/synctest"
	"time"

	"github.com/fullstorydev/grpchan/simrt"
)

// Result is everything one run produced.
type Result struct {
	Seed      int64       `json:"seed"`
	Prog      *Program    `json:"program"`
	Tape      []int       `json:"tape"`
	TapeSeed  int64       `json:"tape_seed,omitempty"`
	TapeFork  int64       `json:"tape_fork,omitempty"`
	Viols     []Violation `json:"violations,omitempty"`
	Stats     Stats       `json:"stats"`
	Trace     []string    `json:"trace,omitempty"`
	TraceHash string      `json:"trace_hash"`
	Hist      []*Event    `json:"-"`
	HistText  []string    `json:"history,omitempty"`
	Fatal     string      `json:"fatal,omitempty"`
	Shape     string      `json:"shape"`
	Diverged  int         `json:"diverged,omitempty"`
}

// specialRunners are profiles whose runs are not simulated RPC programs.
var specialRunners = map[string]func(t *testing.T, prog *Program, tape *Tape, keepTrace bool) *Result{}

var goroutineHdr = regexp.MustCompile(`(?m)^goroutine (\d+) \[`)

// libGoroutines returns the ids of goroutines that have a frame inside the
// library (not counting the simulation runtime), with their stacks.
func libGoroutines() map[string]string {
	buf := make([]byte, 1<<20)
	for {
		n := runtime.Stack(buf, true)
		if n < len(buf) {
			buf = buf[:n]
			break
		}
		buf = make([]byte, 2*len(buf))
	}
	out := map[string]string{}
	for _, g := range strings.Split(string(buf), "\n\n") {
		m := goroutineHdr.FindStringSubmatch(g)
		if m == nil {
			continue
		}
		lib := false
		for _, line := range strings.Split(g, "\n") {
			if strings.HasPrefix(line, "github.com/fullstorydev/grpchan") && !strings.HasPrefix(line, "github.com/fullstorydev/grpchan/simrt.") {
				lib = true
				break
			}
		}
		if lib {
			out[m[1]] = g
		}
	}
	return out
}

func newSim(prog *Program, tape *Tape, keepTrace bool) *Sim {
	s := &Sim{prog: prog, tape: tape, keepTrace: keepTrace, K: simrt.NewKernel(), pendingOps: map[string]*Event{}, prio: map[string]int{}, endCh: make(chan struct{})}
	s.stats.Faults = map[string]int{}
	s.stats.Probes = map[string]int{}
	s.polRng = rand.New(rand.NewSource(prog.Seed*7919 + 13))
	s.faults = append([]Fault(nil), prog.Faults...)
	sort.SliceStable(s.faults, func(i, j int) bool { return s.faults[i].Step < s.faults[j].Step })
	if prog.Cfg.Policy == 1 {
		n := 1 + s.polRng.Intn(3)
		for i := 0; i < n; i++ {
			s.prioChange = append(s.prioChange, s.polRng.Intn(120))
		}
		sort.Ints(s.prioChange)
	}
	s.K.Choose = func(n int, what string) int {
		s.stats.Selects++
		return s.tape.next(n, -1)
	}
	if keepTrace {
		s.K.Log = func(m string) { s.tracef("%s", m) }
	}
	if prog.Profile == "c20" {
		s.hookStep = backpressureHook
	}
	return s
}

// RunOne executes one program under one schedule tape.
func RunOne(t *testing.T, prog *Program, tape *Tape, keepTrace bool) (res *Result) {
	if f, ok := specialRunners[prog.Profile]; ok {
		return f(t, prog, tape, keepTrace)
	}
	if prog.Cfg.MeterAlloc && !metering {
		return runMetered(t, prog, tape, keepTrace)
	}
	res = &Result{Seed: prog.Seed, Prog: prog}
	defer armWatchdog(prog, tape)()
	before := libGoroutines()
	var s *Sim
	func() {
		defer func() {
			simrt.Current = nil
			if r := recover(); r != nil {
				msg := fmt.Sprint(r)
				if strings.Contains(msg, "deadlock") && s != nil && s.ended {
					// goroutines left blocked in the bubble after the end-of-run protocol
					res.Fatal = ""
					leaked := leakReport(before)
					if leaked != "" {
						res.Viols = append(res.Viols, Violation{Prop: "C05", Sig: "C05|leak|blocked-goroutine-at-end", RPC: -1,
							Text: "goroutines with library frames remain blocked after every call completed, every context was cancelled and the network was closed:\n" + leaked})
					} else {
						res.Fatal = "bubble deadlock without library goroutine: " + msg
					}
					return
				}
				buf := make([]byte, 8192)
				buf = buf[:runtime.Stack(buf, false)]
				res.Fatal = fmt.Sprintf("harness panic: %v\n%s", r, buf)
			}
		}()
		synctest.Test(t, func(t *testing.T) {
			s = newSim(prog, tape, keepTrace)
			s.t0 = time.Now()
			simrt.Current = s.K
			s.setupEnv()
			for _, r := range prog.RPCs {
				rs := &rpcState{r: r}
				s.rpcs = append(s.rpcs, rs)
			}
			for _, rs := range s.rpcs {
				if rs.r.Nested {
					continue
				}
				if a := rs.r.After; a > 0 && a <= len(s.rpcs) && a-1 != rs.r.ID && !s.rpcs[a-1].r.Nested {
					s.waiting = append(s.waiting, rs) // a later call on the same channel
					continue
				}
				s.spawnClient(rs, 0, rs.r.Client)
			}
			maxSteps := prog.Cfg.MaxSteps
			if maxSteps == 0 {
				maxSteps = 4000
			}
			s.loop(maxSteps)
			s.finish(before)
			res.fill(s)
		})
	}()
	if s != nil && res.TraceHash == "" {
		res.fill(s)
	}
	return res
}

func leakReport(before map[string]string) string {
	after := libGoroutines()
	var ids []string
	for id := range after {
		if _, ok := before[id]; !ok {
			ids = append(ids, id)
		}
	}
	sort.Strings(ids)
	var sb strings.Builder
	for i, id := range ids {
		if i >= 3 {
			fmt.Fprintf(&sb, "... and %d more\n", len(ids)-3)
			break
		}
		g := after[id]
		if len(g) > 1200 {
			g = g[:1200]
		}
		sb.WriteString(g)
		sb.WriteString("\n")
	}
	return sb.String()
}

// finish is the end-of-run protocol: everything is cancelled and closed,
// whatever can still run runs, and then no library goroutine may remain.
func (s *Sim) finish(before map[string]string) {
	s.ended = true
	if wireProbe != nil {
		wireProbe(s)
	}
	s.stats.Steps = s.step
	capped := s.stats.HitCap
	s.tracef("--- end of program (step cap hit: %v) ---", capped)
	if len(s.K.Panics) == 0 {
		s.closure = nil
		// let calls that are complete on the wire finish on their own first
		s.drain(3000)
		if s.hookStep != nil {
			s.hookStep(s)
		}
		s.censusBeforeCancel(before)
		for _, rs := range s.rpcs {
			if rs.started && rs.ctx.Err() == nil {
				s.endCtx(rs, "end")
			}
			if rs.cancel != nil {
				rs.cancel()
			}
		}
		s.drain(3000)
		s.env.shutdown()
		s.drain(3000)
		// a deadline propagated to a server (GRPC-Timeout has 1 ms granularity)
		// may lie up to a millisecond after the caller's: let such timers fire
		// before handlers still waiting for their context are told that the
		// run is over
		time.Sleep(5 * time.Millisecond)
		s.drain(3000)
		// ... and a request that was still in transit when the caller's
		// deadline passed gives its handler the remaining time from arrival:
		// wait for the deadlines the running handlers actually have
		for i := 0; i < 4; i++ {
			var latest time.Time
			s.mu.Lock()
			for _, rs := range s.rpcs {
				if rs.handlerCtx != nil && rs.handlerDone < rs.handlerEntered && rs.handlerCtx.Err() == nil {
					if dl, ok := rs.handlerCtx.Deadline(); ok && dl.After(latest) {
						latest = dl
					}
				}
			}
			s.mu.Unlock()
			if latest.IsZero() {
				break
			}
			if d := time.Until(latest); d > 0 {
				time.Sleep(d + time.Microsecond)
			}
			s.drain(3000)
		}
		close(s.endCh)
		s.drain(3000)
		s.releaseContexts()
		s.drain(3000)
		s.stats.VirtualNs = s.now()
		// let every sleeper and timer run out
		time.Sleep(100 * time.Hour)
		s.drain(3000)
		synctest.Wait()
	}
	s.releaseContexts()
	if os.Getenv("SIM_DUMPWIRE") != "" {
		for _, p := range s.conns {
			fmt.Printf("WIRE %s c>s %q\n", p.tag, string(p.c2s.wrote))
			fmt.Printf("WIRE %s s>c %q\n", p.tag, string(p.s2c.wrote))
		}
	}
	for _, p := range s.K.Panics {
		s.viols = append(s.viols, Violation{Prop: "C05", Sig: "C05|panic|library-goroutine|" + firstLine(p), RPC: -1, Text: "a goroutine started by the library panicked (the process would have died): " + p})
	}
	if len(s.K.Panics) == 0 && !capped {
		// leak census
		after := libGoroutines()
		var leaked []string
		for id, g := range after {
			if _, ok := before[id]; !ok {
				leaked = append(leaked, g)
			}
		}
		sort.Strings(leaked)
		if len(leaked) > 0 {
			g := leaked[0]
			if len(g) > 1500 {
				g = g[:1500]
			}
			s.viols = append(s.viols, Violation{Prop: "C05", Sig: "C05|leak|" + leakSite(g), RPC: -1,
				Text: fmt.Sprintf("%d goroutine(s) with library frames remain after every call completed, every context was cancelled and the network was closed; first:\n%s", len(leaked), g)})
		}
		if n := s.K.NumParked(); n > 0 {
			s.viols = append(s.viols, Violation{Prop: "H", Sig: "H|parked-at-end", RPC: -1, Text: fmt.Sprintf("%d goroutines still parked in the kernel at end: %v", n, s.K.ParkedOnMutex())})
		}
	}
	if len(s.K.Panics) == 0 {
		s.runOracles()
	}
}

// releaseContexts makes sure no context handed to the library can be
// cancelled by a finalizer after the bubble is gone (that is fatal in
// synctest): everything is cancelled here, and the library's finalizers on
// the stream objects are cleared.
func (s *Sim) releaseContexts() {
	for _, rs := range s.rpcs {
		if rs.cancel != nil {
			rs.cancel()
		}
		if rs.stream != nil {
			func() {
				defer func() { recover() }()
				runtime.SetFinalizer(rs.stream, nil)
			}()
		}
	}
}

func firstLine(s string) string {
	if i := strings.IndexByte(s, '\n'); i >= 0 {
		s = s[:i]
	}
	if i := strings.Index(s, "panicked: "); i >= 0 {
		s = s[i+10:]
	}
	if len(s) > 80 {
		s = s[:80]
	}
	return s
}

var libFrame = regexp.MustCompile(`(?m)^github\.com/fullstorydev/grpchan/([a-z]+)\.([^\n(]+(?:\([^)]*\))?[^\n(]*)\(`)

func leakSite(g string) string {
	for _, line := range strings.Split(g, "\n") {
		if strings.HasPrefix(line, "github.com/fullstorydev/grpchan/") && !strings.HasPrefix(line, "github.com/fullstorydev/grpchan/simrt.") {
			line = strings.TrimPrefix(line, "github.com/fullstorydev/grpchan/")
			if i := strings.LastIndex(line, "("); i > 0 {
				line = line[:i]
			}
			return line
		}
	}
	return "?"
}

func (r *Result) fill(s *Sim) {
	r.Tape = s.tape.Rec
	r.Diverged = s.tape.Diverge
	r.Viols = append(r.Viols, s.viols...)
	r.Stats = s.stats
	r.Hist = s.hist
	r.Trace = s.trace
	h := sha256.New()
	for _, ev := range s.hist {
		fmt.Fprintln(h, ev.String())
	}
	for _, v := range s.tape.Rec {
		fmt.Fprintf(h, "%d,", v)
	}
	fmt.Fprintf(h, "|%d|%d", s.stats.Steps, s.stats.VirtualNs)
	r.TraceHash = hex.EncodeToString(h.Sum(nil)[:8])
	r.Shape = s.shape()
}

// shape is the measure of "distinct interleaving": program structure plus the
// order in which the operations of all actors returned.
func (s *Sim) shape() string {
	h := sha256.New()
	for _, r := range s.prog.RPCs {
		fmt.Fprintf(h, "%s/%d/%d/%d;", r.Transport, r.Kind, len(r.Client)+len(r.Client2), len(r.Handler))
	}
	type pt struct {
		seq int
		s   string
	}
	var pts []pt
	for _, ev := range s.hist {
		pts = append(pts, pt{ev.Seq, fmt.Sprintf("i%d%c%s", ev.RPC, ev.Side, ev.Op)})
		if ev.RSeq != 0 {
			pts = append(pts, pt{ev.RSeq, fmt.Sprintf("r%d%c%s%s", ev.RPC, ev.Side, ev.Op, ev.Err.String())})
		}
	}
	sort.Slice(pts, func(i, j int) bool { return pts[i].seq < pts[j].seq })
	for _, p := range pts {
		fmt.Fprintf(h, "%s|", p.s)
	}
	for _, rs := range s.rpcs {
		fmt.Fprintf(h, "c%d@%d;", rs.r.ID, rs.ctxDoneSeq)
	}
	return hex.EncodeToString(h.Sum(nil)[:8])
}

func (r *Result) histText() []string {
	var out []string
	for _, ev := range r.Hist {
		out = append(out, ev.String())
	}
	return out
}


var metering bool

// runMetered executes the run and measures how many bytes it allocated (the
// collector is off during a run and everything else in the process is idle, so
// the difference of runtime.MemStats.TotalAlloc is attributable to the run).
// The body handed to the decoder starts with a size preface; a preface above
// the per-message limit must be refused before anything of that size is
// allocated, and no preface may cost more than the limit.
func runMetered(t *testing.T, prog *Program, tape *Tape, keepTrace bool) *Result {
	metering = true
	defer func() { metering = false }()
	var body []byte
	side := "client"
	note := ""
	if prog.Canned != nil {
		body, note = []byte(prog.Canned.Raw), prog.Canned.RawNote
	} else if len(prog.RPCs) > 0 && len(prog.RPCs[0].Client) > 0 && prog.RPCs[0].Client[0].Raw != nil {
		body, note, side = []byte(prog.RPCs[0].Client[0].Raw.Body), prog.RPCs[0].Client[0].Raw.Note, "server"
	}
	var m0, m1 runtime.MemStats
	runtime.GC()
	runtime.ReadMemStats(&m0)
	res := RunOne(t, prog, tape, keepTrace)
	runtime.ReadMemStats(&m1)
	delta := m1.TotalAlloc - m0.TotalAlloc
	res.Stats.Probes["c07-alloc-metered"]++
	res.Stats.Probes["C07-relevant"]++
	announced := int64(0)
	if len(body) >= 4 {
		announced = int64(int32(uint32(body[0])<<24 | uint32(body[1])<<16 | uint32(body[2])<<8 | uint32(body[3])))
		if announced < 0 {
			announced = -announced
		}
	}
	const perMessage = 100 * 1024 * 1024
	limit := uint64(perMessage + 16*1024*1024)
	if announced > perMessage {
		limit = 16 * 1024 * 1024 // over the per-message limit: must be refused before allocating
	}
	if delta > limit {
		res.Viols = append(res.Viols, Violation{Prop: "C07", Sig: "C07|http|alloc-on-unverified-preface|" + side + "|" + strings.ReplaceAll(note, " ", "-"), RPC: 0,
			Text: fmt.Sprintf("%s-side decoder, adversarial body (%s, %d bytes present, preface announces %d): decoding allocated %d bytes", side, note, len(body), announced, delta)})
	}
	return res
}


// censusBeforeCancel: when every call of the run has completed and been
// consumed (its caller holds the final outcome, its handler has returned)
// while no context has been cancelled yet, no goroutine of the library may be
// left: a goroutine that only goes away when the caller's context is
// eventually cancelled is a leak for a caller that never cancels.
func (s *Sim) censusBeforeCancel(before map[string]string) {
	if s.stats.HitCap || len(s.waiting) > 0 {
		return
	}
	for _, v := range s.views() {
		rs := v.rs
		if !rs.started {
			if rs.r.Nested {
				continue
			}
			return
		}
		if rs.ctx.Err() != nil || !rs.clientEnded || rs.handlerDone < rs.handlerEntered || v.r.RawClient {
			return // cancelled, cut short by the harness, or not a library client
		}
		if v.terminal == nil || v.terminal.RSeq == 0 {
			return // the caller never asked for the final outcome: not consumed
		}
		if v.terminal.Flags["mismatch"] == "1" {
			return // the caller could not decode a response; whether that ends the call is the caller's decision
		}
		if v.r.Kind != KUnary && !v.single && v.terminal.Err.IsNil() {
			return
		}
		if v.terminal.Err.Class == "error" {
			for _, sd := range v.hSend {
				if sd.Msg != nil && sd.Msg.Kind == 4 {
					return // same: a response that cannot be encoded could not be copied into the caller's message
				}
			}
		}
	}
	synctest.Wait()
	after := libGoroutines()
	var leaked []string
	for id, g := range after {
		if _, ok := before[id]; !ok {
			leaked = append(leaked, g)
		}
	}
	if len(leaked) == 0 {
		s.stats.Probes["census-before-cancel-clean"]++
		return
	}
	sort.Strings(leaked)
	g := leaked[0]
	if len(g) > 1500 {
		g = g[:1500]
	}
	s.viols = append(s.viols, Violation{Prop: "C05", Sig: "C05|leak-while-context-alive|" + leakSite(g), RPC: -1,
		Text: fmt.Sprintf("%d goroutine(s) with library frames remain although every call has completed and been consumed (no context has been cancelled yet); first:\n%s", len(leaked), g)})
}
