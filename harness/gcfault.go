package sim

import (
	"context"
	"fmt"
	"net"
	"net/http"
	"net/url"
	"runtime"
	"sync"
	"testing"
	"time"

	"github.com/fullstorydev/grpchan/grpchantesting"
	"github.com/fullstorydev/grpchan/httpgrpc"
	"github.com/fullstorydev/grpchan/inprocgrpc"
	"google.golang.org/grpc"
	"google.golang.org/grpc/codes"
	"google.golang.org/grpc/status"
)

// Garbage-collection fault (profile c04gc). The library attaches finalizers
// that cancel a stream's context once the stream object is unreachable. A
// caller blocked in its last use of a stream holds no other reference to it,
// so the instant at which the collector runs is one more source of
// nondeterminism a pending call is exposed to. The simulator proper cannot
// inject it (a finalizer runs outside the synctest bubble), so this fault is
// injected outside the bubble, on real goroutines and an in-memory pipe
// network: a collection (and time for finalizers) is forced while an
// operation of an otherwise quiet call is pending, and the operation must
// still be pending afterwards. The oracle never depends on timing: the
// handler answers only when told to, so an operation that returns before that
// is wrong however long anything took; timing only decides whether a
// misbehaviour is reached.

func init() {
	specialGenerators["c04gc"] = func(g *gen, seed int64) *Program {
		p := &Program{Profile: "c04gc", Seed: seed}
		r := &RPC{ID: 0, Svc: "sim.S", Meth: "M0", Call: "/sim.S/M0"}
		r.Transport = []string{THTTP, TInproc}[int(uint64(seed)%2)]
		r.Kind = []int{KServerStream, KBidi, KClientStream}[int(uint64(seed)/2%3)]
		p.RPCs = []*RPC{r}
		return p
	}
	specialRunners["c04gc"] = runGCFault
}

type pipeListener struct {
	ch     chan net.Conn
	closed chan struct{}
	once   sync.Once
}

func (l *pipeListener) Accept() (net.Conn, error) {
	select {
	case c := <-l.ch:
		return c, nil
	case <-l.closed:
		return nil, net.ErrClosed
	}
}
func (l *pipeListener) Close() error   { l.once.Do(func() { close(l.closed) }); return nil }
func (l *pipeListener) Addr() net.Addr { return &net.TCPAddr{IP: net.IPv4(10, 0, 0, 2), Port: 80} }
func (l *pipeListener) dial() (net.Conn, error) {
	a, b := net.Pipe()
	select {
	case l.ch <- b:
		return a, nil
	case <-l.closed:
		return nil, net.ErrClosed
	}
}

func runGCFault(t *testing.T, prog *Program, tape *Tape, keepTrace bool) *Result {
	res := &Result{Seed: prog.Seed, Prog: prog, Tape: []int{}}
	res.Stats.Faults = map[string]int{}
	res.Stats.Probes = map[string]int{}
	r := prog.RPCs[0]
	release := make(chan struct{})
	entered := make(chan struct{}, 1)
	desc := &grpc.ServiceDesc{ServiceName: r.Svc, HandlerType: (*any)(nil), Metadata: "sim.proto"}
	cs, ss := r.Kind == KClientStream || r.Kind == KBidi, r.Kind == KServerStream || r.Kind == KBidi
	desc.Streams = []grpc.StreamDesc{{StreamName: r.Meth, ClientStreams: cs, ServerStreams: ss, Handler: func(srv any, stream grpc.ServerStream) error {
		m := &grpchantesting.Message{}
		for {
			if err := stream.RecvMsg(m); err != nil {
				break
			}
			if !cs {
				break
			}
		}
		entered <- struct{}{}
		<-release
		return stream.SendMsg(&grpchantesting.Message{Count: 7})
	}}}
	var ch grpc.ClientConnInterface
	var cleanup func()
	switch r.Transport {
	case TInproc:
		c := &inprocgrpc.Channel{}
		c.RegisterService(desc, &struct{}{})
		ch, cleanup = c, func() {}
	default:
		srv := httpgrpc.NewServer()
		srv.RegisterService(desc, &struct{}{})
		ln := &pipeListener{ch: make(chan net.Conn), closed: make(chan struct{})}
		hs := &http.Server{Handler: srv}
		go hs.Serve(ln)
		tr := &http.Transport{DialContext: func(ctx context.Context, network, addr string) (net.Conn, error) { return ln.dial() }}
		ch = &httpgrpc.Channel{Transport: tr, BaseURL: &url.URL{Scheme: "http", Host: "sim.test", Path: "/"}}
		cleanup = func() { tr.CloseIdleConnections(); hs.Close(); ln.Close() }
	}
	defer cleanup()
	ctx, cancel := context.WithCancel(context.Background())
	defer cancel()
	out := make(chan error, 1)
	got := &grpchantesting.Message{}
	// the stream is referenced only from inside this closure and from the
	// goroutine blocked in its receive
	func() {
		st, err := ch.NewStream(ctx, &grpc.StreamDesc{StreamName: r.Meth, ClientStreams: cs, ServerStreams: ss}, r.Call)
		if err != nil {
			res.Fatal = "gc-fault harness: NewStream: " + err.Error()
			return
		}
		if err := st.SendMsg(&grpchantesting.Message{Count: 1}); err != nil {
			res.Fatal = "gc-fault harness: SendMsg: " + err.Error()
			return
		}
		if err := st.CloseSend(); err != nil {
			res.Fatal = "gc-fault harness: CloseSend: " + err.Error()
			return
		}
		go func() { out <- st.RecvMsg(got) }()
	}()
	if res.Fatal != "" {
		close(release)
		return res
	}
	select {
	case <-entered:
	case <-time.After(10 * time.Second):
		res.Fatal = "gc-fault harness: the handler was not reached within 10 s"
		close(release)
		return res
	}
	res.Stats.Probes["C04-relevant"]++
	res.Stats.Probes["C05-relevant"]++
	early := false
	var earlyErr error
	for i := 0; i < 4 && !early; i++ {
		runtime.GC()
		res.Stats.Faults["gc-while-pending"]++
		select {
		case earlyErr = <-out:
			early = true
		case <-time.After(8 * time.Millisecond):
		}
	}
	close(release)
	if early {
		sig := fmt.Sprintf("C04|%s|%s|gc-ends-pending-call|%s", r.Transport, kindNames[r.Kind], status.Code(earlyErr))
		res.Viols = append(res.Viols, Violation{Prop: "C04", Sig: sig, RPC: 0, Text: fmt.Sprintf(
			"rpc0 %s %s: a garbage collection while the client was blocked in RecvMsg (the caller's last use of the stream) made the receive return %v although nobody cancelled the call and the handler had not answered yet", r.Transport, kindNames[r.Kind], earlyErr)})
	} else {
		select {
		case err := <-out:
			if err != nil || got.Count != 7 {
				code := codes.Unknown
				if err != nil {
					code = status.Code(err)
				}
				res.Viols = append(res.Viols, Violation{Prop: "C04", Sig: fmt.Sprintf("C04|%s|%s|gc-then-wrong-result|%s", r.Transport, kindNames[r.Kind], code), RPC: 0,
					Text: fmt.Sprintf("rpc0 %s %s: after garbage collections during a pending receive, the receive returned err=%v count=%d instead of the handler's response", r.Transport, kindNames[r.Kind], err, got.Count)})
			}
		case <-time.After(10 * time.Second):
			res.Fatal = "gc-fault harness: the receive did not return within 10 s after the handler answered"
		}
	}
	res.Shape = fmt.Sprintf("gc-%s-%d-%v", r.Transport, r.Kind, early)
	res.TraceHash = res.Shape
	return res
}
