package sim

import (
	"encoding/json"
	"fmt"
	"os"
	"testing"
	"time"
)

// Shrink minimises a failing (program, tape) pair while the same violation
// signature persists. Program reductions are structural (drop an RPC, a
// fault, an operation; simplify a message, metadata, deadline); after each
// candidate change the schedule is searched again (the old tape first, then a
// few fresh seeded tapes), because step indices shift when the program
// changes. Finally the tape itself is shortened and zeroed.
type shrinker struct {
	t        *testing.T
	sig      string
	deadline time.Time
	tries    int
	runs     int
}

func cloneProgram(p *Program) *Program {
	b, _ := json.Marshal(p)
	var q Program
	_ = json.Unmarshal(b, &q)
	return &q
}

func (sh *shrinker) fails(p *Program, tape []int, search int) (*Result, bool) {
	check := func(res *Result) bool {
		for _, v := range res.Viols {
			if v.Sig == sh.sig {
				return true
			}
		}
		return false
	}
	sh.runs++
	res := RunOne(sh.t, cloneProgram(p), NewReplayTape(tape), false)
	if res.Fatal == "" && check(res) {
		return res, true
	}
	for i := 0; i < search; i++ {
		if time.Now().After(sh.deadline) {
			break
		}
		sh.runs++
		res := RunOne(sh.t, cloneProgram(p), NewSearchTape(int64(sh.runs)*7919+int64(i)), false)
		if res.Fatal == "" && check(res) {
			return res, true
		}
	}
	return nil, false
}

func removeRPC(p *Program, idx int) *Program {
	q := cloneProgram(p)
	q.RPCs = append(q.RPCs[:idx], q.RPCs[idx+1:]...)
	for i, r := range q.RPCs {
		r.ID = i
		switch {
		case r.After == idx+1:
			r.After = 0
		case r.After > idx+1:
			r.After--
		}
	}
	var fs []Fault
	for _, f := range q.Faults {
		switch {
		case f.Kind == "advance" || f.Kind == "cut-clean" || f.Kind == "cut-reset":
			fs = append(fs, f)
		case f.RPC == idx:
		case f.RPC > idx:
			f.RPC--
			fs = append(fs, f)
		default:
			fs = append(fs, f)
		}
	}
	q.Faults = fs
	return q
}

// candidates yields simpler variants of p, roughly most-reducing first.
func candidates(p *Program) []*Program {
	var out []*Program
	if len(p.RPCs) > 1 {
		for i := range p.RPCs {
			out = append(out, removeRPC(p, i))
		}
	}
	for i := range p.Faults {
		q := cloneProgram(p)
		q.Faults = append(q.Faults[:i], q.Faults[i+1:]...)
		out = append(out, q)
	}
	dropOp := func(get func(r *RPC) *[]Op) {
		for ri := range p.RPCs {
			ops := *get(p.RPCs[ri])
			for oi := range ops {
				if ops[oi].K == "invoke" {
					continue
				}
				q := cloneProgram(p)
				l := get(q.RPCs[ri])
				*l = append((*l)[:oi], (*l)[oi+1:]...)
				out = append(out, q)
			}
		}
	}
	dropOp(func(r *RPC) *[]Op { return &r.Client })
	dropOp(func(r *RPC) *[]Op { return &r.Client2 })
	dropOp(func(r *RPC) *[]Op { return &r.Handler })
	for ri, r := range p.RPCs {
		mod := func(f func(r *RPC)) {
			q := cloneProgram(p)
			f(q.RPCs[ri])
			out = append(out, q)
		}
		if len(r.OutMD) > 0 {
			mod(func(r *RPC) { r.OutMD = nil })
		}
		if r.NHdrOpts > 0 {
			mod(func(r *RPC) { r.NHdrOpts = 0 })
		}
		if r.NTlrOpts > 0 {
			mod(func(r *RPC) { r.NTlrOpts = 0 })
		}
		if r.PeerOpt {
			mod(func(r *RPC) { r.PeerOpt = false })
		}
		if r.Creds != nil {
			mod(func(r *RPC) { r.Creds = nil })
		}
		if r.CtxVals > 0 {
			mod(func(r *RPC) { r.CtxVals = 0 })
		}
		if r.DeadlineN > 0 {
			mod(func(r *RPC) { r.DeadlineN = 0 })
		}
		if r.StopOnErr {
			mod(func(r *RPC) { r.StopOnErr = false })
		}
		if r.After != 0 {
			mod(func(r *RPC) { r.After = 0 })
		}
		if r.DynC || r.DynH {
			mod(func(r *RPC) { r.DynC, r.DynH = false, false })
		}
		simplifyOps := func(get func(r *RPC) []Op) {
			for oi, op := range get(r) {
				oi := oi
				if op.Msg != nil && (op.Msg.Size > 4 || op.Msg.Kind != 0) {
					mod(func(r *RPC) { m := get(r)[oi].Msg; m.Size = 4; m.Kind = 0 })
				}
				if len(op.MD) > 1 {
					mod(func(r *RPC) { get(r)[oi].MD = get(r)[oi].MD[:1] })
				}
				if op.St != nil && (op.St.Details > 0 || op.St.Msg != "") && false {
					mod(func(r *RPC) { get(r)[oi].St.Details = 0; get(r)[oi].St.Msg = "" })
				}
				if op.K == "recv" && op.N == 1 {
					mod(func(r *RPC) { get(r)[oi].N = 0 })
				}
			}
		}
		simplifyOps(func(r *RPC) []Op { return r.Client })
		simplifyOps(func(r *RPC) []Op { return r.Client2 })
		simplifyOps(func(r *RPC) []Op { return r.Handler })
	}
	cfgMod := func(f func(c *Config)) {
		q := cloneProgram(p)
		f(&q.Cfg)
		out = append(out, q)
	}
	if p.Cfg.Policy != 0 {
		cfgMod(func(c *Config) { c.Policy = 0 })
	}
	if p.Cfg.Frag != 0 {
		cfgMod(func(c *Config) { c.Frag = 0 })
	}
	if !p.Cfg.NetEager {
		cfgMod(func(c *Config) { c.NetEager = true })
	}
	if p.Cfg.SendBuf != 0 {
		cfgMod(func(c *Config) { c.SendBuf = 0 })
	}
	if p.Cfg.Cloner != 0 {
		cfgMod(func(c *Config) { c.Cloner = 0 })
	}
	if p.Cfg.TUnaryInt || p.Cfg.TStreamInt {
		cfgMod(func(c *Config) { c.TUnaryInt = false; c.TStreamInt = false })
	}
	return out
}

func progSize(p *Program) int {
	b, _ := json.Marshal(p)
	return len(b)
}

// Shrink returns a minimised replay file (or the original if it cannot even
// be reproduced).
func Shrink(t *testing.T, rf *ReplayFile, budget time.Duration) (*ReplayFile, string) {
	sh := &shrinker{t: t, sig: rf.Signature, deadline: time.Now().Add(budget)}
	prog := cloneProgram(rf.Program)
	res, ok := sh.fails(prog, rf.Tape, 0)
	if !ok {
		return rf, "not reproducible"
	}
	tape := res.Tape
	progress := true
	for progress && time.Now().Before(sh.deadline) {
		progress = false
		for _, c := range candidates(prog) {
			if time.Now().After(sh.deadline) {
				break
			}
			if progSize(c) >= progSize(prog) {
				continue
			}
			if r2, ok := sh.fails(c, tape, 12); ok {
				prog, tape, res = c, r2.Tape, r2
				progress = true
				break
			}
		}
	}
	// schedule: shorten, then zero entries (0 = simplest choice)
	for n := len(tape) / 2; n >= 1 && time.Now().Before(sh.deadline); n /= 2 {
		for len(tape) > n {
			cand := tape[:len(tape)-n]
			if r2, ok := sh.fails(prog, cand, 0); ok {
				tape, res = cand, r2
				_ = r2
			} else {
				break
			}
		}
	}
	for i := 0; i < len(tape) && time.Now().Before(sh.deadline); i++ {
		if tape[i] == 0 {
			continue
		}
		cand := append([]int(nil), tape...)
		cand[i] = 0
		if r2, ok := sh.fails(prog, cand, 0); ok {
			tape, res = cand, r2
		}
	}
	// final run with trace
	final := RunOne(t, cloneProgram(prog), NewReplayTape(tape), true)
	out := &ReplayFile{Property: rf.Property, Signature: rf.Signature, Seed: rf.Seed, Program: prog, Tape: tape, TreeHash: rf.TreeHash}
	found := false
	for _, v := range final.Viols {
		if v.Sig == rf.Signature {
			out.Text = v.Text
			found = true
			break
		}
	}
	if !found {
		return rf, "minimised form did not reproduce with trace on"
	}
	out.Trace = final.Trace
	out.History = final.histText()
	return out, fmt.Sprintf("minimised in %d runs: program %d -> %d bytes, tape %d -> %d choices", sh.runs, progSize(rf.Program), progSize(prog), len(rf.Tape), len(tape))
}

func shrinkMain(t *testing.T, in, out string, budget time.Duration) {
	b, err := os.ReadFile(in)
	if err != nil {
		t.Fatal(err)
	}
	var rf ReplayFile
	if err := json.Unmarshal(b, &rf); err != nil {
		t.Fatal(err)
	}
	res, note := Shrink(t, &rf, budget)
	fmt.Println("shrink:", note)
	ob, _ := json.MarshalIndent(res, "", " ")
	if err := os.WriteFile(out, ob, 0o644); err != nil {
		t.Fatal(err)
	}
}
