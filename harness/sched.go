package sim

import (
	"context"
	"fmt"
	"math/rand"
	"sort"
	"strings"
	"sync"
	"testing/synctest"
	"time"

	"github.com/fullstorydev/grpchan/simrt"
	"google.golang.org/grpc/metadata"
)

// Tape is the schedule choice source: in search mode values come from the
// policy/PRNG and are recorded; in replay mode they are read back (an
// exhausted tape yields 0, the simplest choice).
type Tape struct {
	Replay  []int
	replay  bool
	pos     int
	Rec     []int
	Seed    int64 // of a search tape
	rng     *rand.Rand
	Diverge int // replay values that were out of range (clamped by modulo)
	// ForkSeed, if set on a search tape, re-seeds the choices at the moment the
	// first planned fault fires: runs that share Seed follow the same schedule
	// up to the fault and explore different ones after it
	ForkSeed int64
	forked   bool
}

func (t *Tape) fork() bool {
	if t == nil || t.replay || t.ForkSeed == 0 || t.forked {
		return false
	}
	t.forked = true
	t.rng = rand.New(rand.NewSource(t.ForkSeed))
	return true
}

func NewSearchTape(seed int64) *Tape { return &Tape{Seed: seed, rng: rand.New(rand.NewSource(seed))} }
func NewReplayTape(vals []int) *Tape { return &Tape{Replay: vals, replay: true} }

// next returns a choice in [0,n). suggested is used in search mode when >= 0.
func (t *Tape) next(n int, suggested int) int {
	if n <= 1 {
		return 0
	}
	var v int
	if t.replay {
		if t.pos < len(t.Replay) {
			v = t.Replay[t.pos]
			if v >= n || v < 0 {
				t.Diverge++
				v = ((v % n) + n) % n
			}
		}
		t.pos++
	} else if suggested >= 0 {
		v = suggested
	} else {
		v = t.rng.Intn(n)
	}
	t.Rec = append(t.Rec, v)
	return v
}

type Stats struct {
	Steps      int            `json:"steps"`
	Runs       int            `json:"run_events"`
	Deliveries int            `json:"deliveries"`
	Advances   int            `json:"clock_advances"`
	Dials      int            `json:"dials"`
	VirtualNs  int64          `json:"virtual_ns"`
	Faults     map[string]int `json:"faults_fired"`
	Probes     map[string]int `json:"probes"`
	Selects    int            `json:"select_choices"`
	HitCap     bool           `json:"hit_step_cap"`
	// per call: the scheduler step at which its handler returned and the step at
	// which its client side finished (0 = did not happen): between the two the
	// result of the call is on its way to the caller
	HReturnStep []int `json:"hreturn_step,omitempty"`
	CEndStep    []int `json:"cend_step,omitempty"`
}

type rpcState struct {
	r                    *RPC
	ctx                  context.Context
	cancel               context.CancelFunc
	baseCtx              context.Context
	deadline             time.Time
	started              bool
	nClient              int // client goroutines still running
	clientEnded          bool
	stubDone, stubFailed bool // generated-stub phase of a server-stream call (see stubPhase)

	ctxDoneSeq   int    // history seq at which the caller's context was ended (0 = not)
	ctxCause     string // cancel | deadline | harness | end
	ctxDoneSeq2  int    // second cause, if both happened
	ctxCause2    string
	deadlineSeen bool

	handlerCtx     context.Context
	handlerEntered int
	handlerDone    int
	cutSeq         int // network cut affecting this rpc's transport

	sentObjs   []any // client-side message objects handed to the library
	recvObjs   []any
	hSentObjs  []any
	hRecvObjs  []any
	hdrOpts    []*mdHolder
	tlrOpts    []*mdHolder
	peerOpt    *peerHolder
	stream     any
	ctxVals    []ctxVal
	mutatedObj map[any]bool
	bpReported bool
	outMD      metadata.MD
	nestedIn   *rpcState
}

// Sim is one simulated run.
type Sim struct {
	mu           sync.Mutex
	K            *simrt.Kernel
	prog         *Program
	tape         *Tape
	env          *Env
	t0           time.Time
	step         int
	seq          int
	hist         []*Event
	trace        []string
	keepTrace    bool
	conns        []*connPair
	rpcs         []*rpcState
	stats        Stats
	instants     []time.Time
	faults       []Fault // pending, sorted by step
	prio         map[string]int
	prioChange   []int
	last         string
	closure      *closureCheck
	viols        []Violation
	ended        bool
	liveActors   int
	handlersLive int
	pendingOps   map[string]*Event // actor key -> op in progress
	polRng       *rand.Rand
	hookStep     func(s *Sim)
	endCh        chan struct{}
	waiting      []*rpcState // calls that start once an earlier call's client side has finished
}

type closureCheck struct {
	rpc   int
	since int
}

type Violation struct {
	Prop string `json:"prop"`
	Sig  string `json:"sig"`
	Text string `json:"text"`
	RPC  int    `json:"rpc"`
}

func (s *Sim) violate(prop, sig string, rpc int, f string, a ...any) {
	s.mu.Lock()
	defer s.mu.Unlock()
	s.viols = append(s.viols, Violation{Prop: prop, Sig: sig, RPC: rpc, Text: fmt.Sprintf(f, a...)})
}

func (s *Sim) probe(name string) {
	s.mu.Lock()
	s.stats.Probes[name]++
	s.mu.Unlock()
}

func (s *Sim) tracef(f string, a ...any) {
	if !s.keepTrace {
		return
	}
	line := fmt.Sprintf(f, a...)
	s.mu.Lock()
	s.trace = append(s.trace, fmt.Sprintf("%04d %s", s.step, line))
	s.mu.Unlock()
}

func (s *Sim) now() int64 { return int64(time.Since(s.t0)) }

func (s *Sim) addInstant(t time.Time) {
	s.mu.Lock()
	s.instants = append(s.instants, t)
	s.mu.Unlock()
}

// ---------------------------------------------------------------------------
// events the scheduler can choose between

type schedEvent struct {
	kind  int // 0 run, 1 deliver
	ref   simrt.Ref
	h     *halfConn
	actor string
	desc  string
}

func (s *Sim) enabled() []schedEvent {
	var evs []schedEvent
	for _, r := range s.K.Runnable() {
		name := r.Actor
		if r.Name != "" {
			name = r.Name
		}
		evs = append(evs, schedEvent{kind: 0, ref: r, actor: r.Actor, desc: name + "@" + r.Site})
	}
	if s.closure != nil {
		return evs // frozen network while checking promptness
	}
	s.mu.Lock()
	conns := append([]*connPair(nil), s.conns...)
	s.mu.Unlock()
	for _, p := range conns {
		for _, h := range []*halfConn{p.c2s, p.s2c} {
			if h.deliverable() {
				evs = append(evs, schedEvent{kind: 1, h: h, actor: "net:" + h.name, desc: "deliver " + h.name})
			}
		}
	}
	return evs
}

// pick chooses the next event according to the run's policy (search) or the
// tape (replay).
func (s *Sim) pick(evs []schedEvent) int {
	n := len(evs)
	if n == 1 {
		return 0
	}
	sug := -1
	if !s.tape.replay {
		switch s.prog.Cfg.Policy {
		case 1: // priorities with change points
			for len(s.prioChange) > 0 && s.step >= s.prioChange[0] {
				s.prioChange = s.prioChange[1:]
				// demote the actor that would run now
				best := s.bestPrio(evs)
				s.prio[evs[best].actor] = -s.step
			}
			sug = s.bestPrio(evs)
		case 2: // sticky: keep running the same actor with probability 3/4
			if s.last != "" && s.polRng.Intn(4) != 0 {
				for i, e := range evs {
					if e.actor == s.last {
						sug = i
						break
					}
				}
			}
		}
	}
	i := s.tape.next(n, sug)
	s.last = evs[i].actor
	return i
}

func (s *Sim) bestPrio(evs []schedEvent) int {
	best, bp := 0, -1<<62
	for i, e := range evs {
		p, ok := s.prio[e.actor]
		if !ok {
			p = 1 + s.polRng.Intn(1<<20)
			s.prio[e.actor] = p
		}
		if p > bp {
			best, bp = i, p
		}
	}
	return best
}

func (s *Sim) exec(e schedEvent) {
	switch e.kind {
	case 0:
		s.stats.Runs++
		s.tracef("run %s", e.desc)
		s.K.Release(e.ref)
	case 1:
		s.stats.Deliveries++
		n := -1
		h := e.h
		h.mu.Lock()
		infl := h.inflight
		first := 0
		if len(h.segs) > 0 {
			first = len(h.segs[0])
		}
		h.mu.Unlock()
		rem := h.remainingBeforeCut()
		if rem == 0 {
			s.wireCut(h)
			return
		}
		if rem > 0 && infl > rem {
			infl = rem
			if first > rem {
				first = rem
			}
		}
		if infl > 0 {
			switch s.prog.Cfg.Frag {
			case 1:
				n = first
			case 2:
				n = 1 + s.tape.next(infl, -1)
			case 3:
				if infl <= 48 {
					n = 1 + s.tape.next(min(infl, 3), -1)
				} else {
					n = 1 + s.tape.next(infl, -1)
				}
			}
		}
		if rem > 0 && (n < 0 || n > rem) {
			n = rem
		}
		d := h.deliver(n)
		s.tracef("deliver %s %s", h.name, d)
		if h.remainingBeforeCut() == 0 {
			s.wireCut(h)
		}
	}
}

// wireCut breaks the connection h belongs to, at the planned byte offset.
func (s *Sim) wireCut(h *halfConn) {
	h.mu.Lock()
	h.limitHit = true
	reset := h.limitReset
	h.mu.Unlock()
	var pair *connPair
	s.mu.Lock()
	for _, p := range s.conns {
		if p.c2s == h || p.s2c == h {
			pair = p
		}
	}
	s.seq++
	cs := s.seq
	for _, r := range s.rpcs {
		if r.r.Transport == THTTP && r.cutSeq == 0 {
			r.cutSeq = cs
		}
	}
	s.mu.Unlock()
	kind := "wirecut-clean"
	if reset {
		kind = "wirecut-reset"
	}
	s.fired(kind)
	s.tracef("FAULT %s %s after %d bytes", kind, h.name, h.delivered)
	h.cut(0, reset)
	if pair != nil {
		other := pair.c2s
		if other == h {
			other = pair.s2c
		}
		other.cut(0, reset)
	}
}

// ---------------------------------------------------------------------------
// faults and time

func (s *Sim) fired(kind string) {
	s.mu.Lock()
	s.stats.Faults[kind]++
	s.mu.Unlock()
}

func (s *Sim) endCtx(rs *rpcState, cause string) {
	s.mu.Lock()
	if rs.ctxDoneSeq == 0 {
		s.seq++
		rs.ctxDoneSeq = s.seq
		rs.ctxCause = cause
	} else if rs.ctxCause2 == "" && cause != rs.ctxCause {
		s.seq++
		rs.ctxDoneSeq2 = s.seq
		rs.ctxCause2 = cause
	}
	s.mu.Unlock()
}

func (s *Sim) fire(f Fault) {
	if s.tape.fork() {
		s.polRng = rand.New(rand.NewSource(s.tape.ForkSeed ^ 0x2545F491))
	}
	var rs *rpcState
	if f.RPC >= 0 && f.RPC < len(s.rpcs) {
		rs = s.rpcs[f.RPC]
	}
	switch f.Kind {
	case "cancel":
		if rs == nil || !rs.started || rs.ctx.Err() != nil {
			s.tracef("fault cancel rpc%d: not applicable", f.RPC)
			return
		}
		inflight := !rs.clientEnded
		s.tracef("FAULT cancel rpc%d (in flight: %v)", f.RPC, inflight)
		s.endCtx(rs, "cancel")
		rs.cancel()
		if inflight {
			s.fired("cancel")
			if f.N == 1 {
				s.closure = &closureCheck{rpc: f.RPC, since: s.seq}
			}
		} else {
			s.fired("cancel-after-end")
		}
	case "deadline":
		if rs == nil || !rs.started || rs.deadline.IsZero() || rs.ctx.Err() != nil {
			s.tracef("fault deadline rpc%d: not applicable", f.RPC)
			return
		}
		if !rs.clientEnded {
			s.fired("deadline")
		} else {
			s.fired("deadline-after-end")
		}
		s.tracef("FAULT deadline rpc%d", f.RPC)
		s.advanceTo(rs.deadline)
	case "advance":
		s.fired("advance")
		s.tracef("FAULT advance %v", time.Duration(f.D))
		s.advanceTo(time.Now().Add(time.Duration(f.D)))
	case "cut-clean", "cut-reset":
		s.mu.Lock()
		var target *connPair
		// the N-th connection, if it exists
		if f.N < len(s.conns) {
			target = s.conns[f.N]
		}
		s.mu.Unlock()
		if target == nil {
			s.tracef("fault %s conn%d: no such connection", f.Kind, f.N)
			return
		}
		target.s2c.mu.Lock()
		dead := target.s2c.eof || target.s2c.rerr != nil
		infl := target.s2c.inflight
		target.s2c.mu.Unlock()
		if dead {
			return
		}
		keep := 0
		if infl > 0 {
			keep = s.tape.next(infl+1, -1)
		}
		s.fired(f.Kind)
		s.tracef("FAULT %s conn%d keep=%d of %d in flight", f.Kind, f.N, keep, infl)
		s.mu.Lock()
		s.seq++
		cs := s.seq
		for _, r := range s.rpcs {
			if r.r.Transport == THTTP && r.cutSeq == 0 {
				r.cutSeq = cs // conservative: any HTTP rpc may be on this connection
			}
		}
		s.mu.Unlock()
		target.s2c.cut(keep, f.Kind == "cut-reset")
		target.c2s.cut(0, f.Kind == "cut-reset")
	}
}

// advanceTo moves the virtual clock to t (if in the future). All contexts
// whose deadline falls in the interval are marked as ended first.
func (s *Sim) advanceTo(t time.Time) {
	d := time.Until(t)
	if d <= 0 {
		return
	}
	for _, rs := range s.rpcs {
		if rs.started && !rs.deadline.IsZero() && !rs.deadlineSeen && !rs.deadline.After(t) {
			rs.deadlineSeen = true
			if rs.ctx.Err() == nil {
				s.endCtx(rs, "deadline")
			}
		}
	}
	s.stats.Advances++
	time.Sleep(d + time.Nanosecond)
}

func (s *Sim) nextInstant() (time.Time, bool) {
	s.mu.Lock()
	defer s.mu.Unlock()
	now := time.Now()
	var best time.Time
	keep := s.instants[:0]
	for _, t := range s.instants {
		if !t.After(now) {
			continue
		}
		keep = append(keep, t)
		if best.IsZero() || t.Before(best) {
			best = t
		}
	}
	s.instants = keep
	return best, !best.IsZero()
}

// quiescent is called when no event is enabled. It returns false when the
// run cannot make progress any more.
func (s *Sim) quiescent() bool {
	if s.closure != nil {
		s.checkClosure()
		s.closure = nil
		return true
	}
	// pending planned faults fire now rather than never
	if len(s.faults) > 0 {
		f := s.faults[0]
		s.faults = s.faults[1:]
		s.fire(f)
		return true
	}
	if t, ok := s.nextInstant(); ok {
		s.tracef("clock -> +%v", time.Until(t))
		s.advanceTo(t)
		return true
	}
	// unknown timers (e.g. server-side GRPC-Timeout): give them an hour
	before := s.seq
	s.advanceTo(time.Now().Add(time.Hour + 17*time.Nanosecond))
	synctest.Wait()
	if len(s.enabled()) > 0 || s.seq != before {
		s.tracef("clock +1h woke something")
		return true
	}
	return s.resolveBlocked()
}

// resolveBlocked examines operations still blocked when nothing at all can
// happen any more.
func (s *Sim) resolveBlocked() bool {
	s.mu.Lock()
	type blocked struct {
		key string
		ev  *Event
	}
	var bl []blocked
	for k, ev := range s.pendingOps {
		bl = append(bl, blocked{k, ev})
	}
	s.mu.Unlock()
	sort.Slice(bl, func(i, j int) bool { return bl[i].ev.Seq < bl[j].ev.Seq })
	progressed := false
	for _, b := range bl {
		rs := s.rpcs[b.ev.RPC]
		ctxDone := rs.ctx != nil && rs.ctx.Err() != nil
		hDone := rs.handlerEntered > 0 && rs.handlerDone >= rs.handlerEntered
		if b.ev.Op == "waitctx" || b.ev.Op == "sleep" {
			if ctxDone && b.ev.Op == "waitctx" {
				s.noteStuckHandler(rs, b.ev)
			}
			continue
		}
		if b.ev.Side == 'c' && b.ev.Op == "header" && !ctxDone && !hDone && s.gotResponseMessage(rs) && !s.otherClientGoroutineIn(rs, b.ev, "recv") {
			// headers are final once a response message has arrived: Header()
			// has nothing to wait for
			s.violate("C03", fmt.Sprintf("C03|%s|%s|header-call-blocks-after-first-message", rs.r.Transport, kindNames[rs.r.Kind]), rs.r.ID,
				"rpc%d %s %s: the client has received a response message, yet its Header() call (seq %d) blocks until the handler produces something more; nothing else can happen (handler and client wait for each other)", rs.r.ID, rs.r.Transport, kindNames[rs.r.Kind], b.ev.Seq)
			if s.handlerInLibrary(rs) {
				s.violate("C05", fmt.Sprintf("C05|%s|%s|blocked-c-header|after-first-message", rs.r.Transport, kindNames[rs.r.Kind]), rs.r.ID,
					"rpc%d %s %s: Header() (seq %d) blocks after a response message was received while the handler waits for the client's next request: a deadlock made by the library", rs.r.ID, rs.r.Transport, kindNames[rs.r.Kind], b.ev.Seq)
			}
		}
		if b.ev.Side == 'c' && b.ev.Op == "header" && !ctxDone && !hDone && !s.gotResponseMessage(rs) && s.headersSentExplicitly(rs) && s.handlerInLibrary(rs) && !s.otherClientGoroutineIn(rs, b.ev, "recv") {
			// the handler's SendHeader has returned nil: the headers are on
			// their way as far as the handler can tell, and it may now wait for
			// the client, which waits for those headers
			s.violate("C05", fmt.Sprintf("C05|%s|%s|blocked-c-header|after-SendHeader", rs.r.Transport, kindNames[rs.r.Kind]), rs.r.ID,
				"rpc%d %s %s: the handler's SendHeader returned nil, yet the client's Header() (seq %d) still blocks and nothing else can happen (handler and client wait for each other): a deadlock made by the library", rs.r.ID, rs.r.Transport, kindNames[rs.r.Kind], b.ev.Seq)
		}
		if b.ev.Side == 'c' && b.ev.Op == "header" && !ctxDone && !hDone && s.otherClientGoroutineIn(rs, b.ev, "recv") && (s.gotHeaderFrame(rs) || s.gotResponseMessage(rs)) {
			// the headers have arrived (the receiving goroutine consumed the
			// frame), yet the sender's Header() waits for the receiver's RecvMsg
			// to return, which waits for a response the handler only sends after
			// the sender's next request
			s.violate("C05", fmt.Sprintf("C05|%s|%s|blocked-c-header|behind-a-blocked-recv", rs.r.Transport, kindNames[rs.r.Kind]), rs.r.ID,
				"rpc%d %s %s: Header() called by the client's sending goroutine (seq %d) does not return although the response headers have arrived: it waits behind the RecvMsg of the receiving goroutine; the handler waits for the sender's next request and nothing else can happen", rs.r.ID, rs.r.Transport, kindNames[rs.r.Kind], b.ev.Seq)
			continue
		}
		if b.ev.Side == 'h' && (b.ev.Op == "settlr" || b.ev.Op == "sethdr") {
			// SetTrailer and SetHeader only record metadata: nothing they could
			// legitimately wait for
			s.violate("C05", fmt.Sprintf("C05|%s|%s|blocked-h-%s|behind-a-blocked-send", rs.r.Transport, kindNames[rs.r.Kind], b.ev.Op), rs.r.ID,
				"rpc%d %s %s: the handler's %s (seq %d) does not return: it waits behind the SendMsg of the handler's sender goroutine, which is blocked on backpressure; the handler stops receiving meanwhile and nothing else can happen", rs.r.ID, rs.r.Transport, kindNames[rs.r.Kind], b.ev.Op, b.ev.Seq)
		}
		if ctxDone || (hDone && b.ev.Side == 'c') {
			why := "context done"
			if !ctxDone {
				why = "handler returned"
			}
			s.violate("C05", fmt.Sprintf("C05|%s|%s|blocked-%c-%s|%s", rs.r.Transport, kindNames[rs.r.Kind], b.ev.Side, b.ev.Op, strings.ReplaceAll(why, " ", "-")), rs.r.ID,
				"rpc%d %s %s: %c.%s (seq %d) is still blocked although %s and nothing else can happen (deadlock)", rs.r.ID, rs.r.Transport, kindNames[rs.r.Kind], b.ev.Side, b.ev.Op, b.ev.Seq, why)
			if b.ev.Op == "send" && rs.r.Transport == TInproc && rs.r.Kind != KUnary {
				// C20: a sender blocked by backpressure is released when the peer
				// finishes or the context ends
				s.violate("C20", fmt.Sprintf("C20|inproc|%s|sender-not-released|%c|%s", kindNames[rs.r.Kind], b.ev.Side, strings.ReplaceAll(why, " ", "-")), rs.r.ID,
					"rpc%d %s: %c.send (seq %d) stays blocked although %s", rs.r.ID, kindNames[rs.r.Kind], b.ev.Side, b.ev.Seq, why)
			}
			continue
		}
	}
	// application-level waits: end the calls
	for _, rs := range s.rpcs {
		if rs.started && rs.ctx.Err() == nil && rs.r.RawClient && !rs.clientEnded && rs.handlerDone >= rs.handlerEntered {
			// C11: an HTTP client that has sent its request (or, with Expect:
			// 100-continue, its head, and has meanwhile been given a final
			// status) reads the reply to its end; no handler is running, nothing
			// is in flight, no timer is pending - and the reply is not complete
			expects := "no-expect"
			for _, op := range rs.r.Client {
				if op.Raw != nil {
					for _, kv := range op.Raw.Hdrs {
						if kv.K == "Expect" {
							expects = "expect-100-continue"
						}
					}
				}
			}
			what := "refused"
			if rs.handlerEntered > 0 {
				what = "handler-returned"
			}
			s.violate("C11", fmt.Sprintf("C11|%s|%s|reply-never-finished|%s|%s", rs.r.Transport, kindNames[rs.r.Kind], what, expects), rs.r.ID,
				"rpc%d %s %s: the HTTP client is still waiting for the end of the reply, no handler is running (entered %d, returned %d) and nothing else can happen: the server never finishes its answer (%s)", rs.r.ID, rs.r.Transport, kindNames[rs.r.Kind], rs.handlerEntered, rs.handlerDone, expects)
		}
		if rs.started && rs.ctx.Err() == nil && (!rs.clientEnded || rs.handlerDone < rs.handlerEntered) {
			s.tracef("harness cancels rpc%d (application-level wait)", rs.r.ID)
			s.endCtx(rs, "harness")
			rs.cancel()
			s.probe("harness-cancel")
			progressed = true
		}
	}
	return progressed
}

func (s *Sim) gotResponseMessage(rs *rpcState) bool {
	s.mu.Lock()
	defer s.mu.Unlock()
	for _, ev := range s.hist {
		if ev.RPC == rs.r.ID && ev.Side == 'c' && ev.Op == "recv" && ev.RSeq != 0 && ev.Err.IsNil() && ev.GotMsg != nil {
			return true
		}
	}
	return false
}

// handlerInLibrary: the handler of this call is itself blocked inside a
// stream operation (waiting for the client), not in something of its own.
func (s *Sim) handlerInLibrary(rs *rpcState) bool {
	s.mu.Lock()
	defer s.mu.Unlock()
	for _, ev := range s.pendingOps {
		if ev.RPC == rs.r.ID && ev.Side == 'h' && (ev.Op == "recv" || ev.Op == "send") {
			return true
		}
	}
	return false
}

func (s *Sim) otherClientGoroutineIn(rs *rpcState, me *Event, op string) bool {
	s.mu.Lock()
	defer s.mu.Unlock()
	for _, ev := range s.pendingOps {
		if ev.RPC == rs.r.ID && ev.Side == 'c' && ev.G != me.G && ev.Op == op {
			return true
		}
	}
	return false
}

// gotHeaderFrame: the handler has put headers on their way (a successful SendHeader).
func (s *Sim) gotHeaderFrame(rs *rpcState) bool {
	s.mu.Lock()
	defer s.mu.Unlock()
	for _, ev := range s.hist {
		if ev.RPC == rs.r.ID && ev.Side == 'h' && ev.Op == "sendhdr" && ev.RSeq != 0 && ev.Err.IsNil() {
			return true
		}
	}
	return false
}

func (s *Sim) headersSentExplicitly(rs *rpcState) bool {
	s.mu.Lock()
	defer s.mu.Unlock()
	for _, ev := range s.hist {
		if ev.RPC == rs.r.ID && ev.Side == 'h' && ev.Op == "sendhdr" && ev.RSeq != 0 && ev.Err.IsNil() {
			return true
		}
	}
	return false
}

func (s *Sim) noteStuckHandler(rs *rpcState, ev *Event) {
	s.violate("C04", fmt.Sprintf("C04|%s|%s|handler-ctx-not-cancelled", rs.r.Transport, kindNames[rs.r.Kind]), rs.r.ID,
		"rpc%d %s %s: caller's context is done (%s) but the handler's context never becomes done", rs.r.ID, rs.r.Transport, kindNames[rs.r.Kind], rs.ctxCause)
}

// checkClosure: after a cancel, with clock and network frozen, every pending
// client receive / unary call of that RPC must have returned.
func (s *Sim) checkClosure() {
	c := s.closure
	rs := s.rpcs[c.rpc]
	s.probe("closure-checked")
	s.mu.Lock()
	var stuck []*Event
	for _, ev := range s.pendingOps {
		if ev.RPC == c.rpc && ev.Side == 'c' && (ev.Op == "recv" || ev.Op == "invoke" || ev.Op == "header") {
			stuck = append(stuck, ev)
		}
	}
	s.mu.Unlock()
	for _, ev := range stuck {
		s.violate("C04", fmt.Sprintf("C04|%s|%s|not-prompt|%s", rs.r.Transport, kindNames[rs.r.Kind], ev.Op), rs.r.ID,
			"rpc%d %s %s: after cancel, client %s (seq %d) did not return although every runnable goroutine ran to completion with clock and network frozen", rs.r.ID, rs.r.Transport, kindNames[rs.r.Kind], ev.Op, ev.Seq)
	}
	if rs.r.Transport == TInproc && rs.handlerCtx != nil && rs.handlerCtx.Err() == nil {
		s.violate("C04", fmt.Sprintf("C04|inproc|%s|handler-ctx-not-cancelled", kindNames[rs.r.Kind]), rs.r.ID,
			"rpc%d: caller cancelled but the in-process handler's context is not done", rs.r.ID)
	}
}

// ---------------------------------------------------------------------------
// main loop

func (s *Sim) allClientsDone() bool {
	s.mu.Lock()
	defer s.mu.Unlock()
	return s.liveActors == 0 && len(s.waiting) == 0
}

// startWaiting starts the calls whose predecessor has finished on the client
// side (sequential calls on one channel / server / kept-alive connection).
func (s *Sim) startWaiting() {
	if len(s.waiting) == 0 {
		return
	}
	var keep, start []*rpcState
	s.mu.Lock()
	for _, rs := range s.waiting {
		pre := s.rpcs[rs.r.After-1]
		if pre.clientEnded {
			start = append(start, rs)
		} else {
			keep = append(keep, rs)
		}
	}
	s.waiting = keep
	s.mu.Unlock()
	for _, rs := range start {
		s.tracef("start rpc%d (after rpc%d)", rs.r.ID, rs.r.After-1)
		s.probe("sequential-call-started")
		s.spawnClient(rs, 0, rs.r.Client)
	}
}

func (s *Sim) loop(maxSteps int) {
	for s.step = 0; s.step < maxSteps; s.step++ {
		synctest.Wait()
		if len(s.K.Panics) > 0 {
			return
		}
		if s.hookStep != nil {
			s.hookStep(s)
		}
		s.startWaiting()
		if s.allClientsDone() {
			return
		}
		if len(s.faults) > 0 && s.faults[0].Step <= s.step {
			f := s.faults[0]
			s.faults = s.faults[1:]
			s.fire(f)
			continue
		}
		evs := s.enabled()
		if len(evs) == 0 {
			if !s.quiescent() {
				return
			}
			continue
		}
		if s.prog.Cfg.NetEager {
			// deliver everything before anything else runs
			did := false
			for _, e := range evs {
				if e.kind == 1 {
					s.exec(e)
					did = true
					break
				}
			}
			if did {
				continue
			}
		}
		s.exec(evs[s.pick(evs)])
	}
	s.stats.HitCap = true
}

// drain runs everything that can still run, without faults, until nothing is
// enabled. Used by the end-of-run protocol.
func (s *Sim) drain(maxSteps int) {
	for i := 0; i < maxSteps; i++ {
		synctest.Wait()
		s.step++
		if s.hookStep != nil {
			s.hookStep(s)
		}
		evs := s.enabled()
		if len(evs) == 0 {
			if t, ok := s.nextInstant(); ok {
				s.advanceTo(t)
				continue
			}
			return
		}
		// deliveries first, then lowest id: teardown is not part of the search
		idx := 0
		for j, e := range evs {
			if e.kind == 1 {
				idx = j
				break
			}
		}
		s.exec(evs[idx])
	}
	s.stats.HitCap = true
}
