package sim

import (
	"path"
	"fmt"
	"strings"

	"google.golang.org/grpc/codes"
)

// C12: method-name resolution. Honest note (DESIGN.md): nothing here depends
// on a schedule, a clock or a fault; the check is seeded search over
// configurations and method-name strings, executed through the simulated
// stack because the observable (which registered handler ran, what the caller
// got) only exists in a whole call.

func init() {
	specialGenerators["c12"] = genC12
	extraOracles = append(extraOracles, oracleC12)
}

var c12Services = []string{"a.S", "a.S2", "a", "x.y.Z", "a.s"}
var c12Methods = []string{"M", "M2", "MM", "m", "Get", "GetX"}
var c12Bases = []string{"/", "/", "/foo", "/foo/", "/a/b/", "/a/b", "/v1~x/", "/pl+us/", "/ünï/", "/foo/foo/", "/a.S/",
	// characters that need escaping in a URL path (and mean something in a Go >= 1.22 ServeMux pattern)
	"/my api/", "/a%41/", "/{v1}/", "/a{b/", "/q?x/", "/h#x/"}

func genC12(g *gen, seed int64) *Program {
	p := &Program{Profile: "c12", Seed: seed}
	p.Cfg.Policy = g.pick(3)
	p.Cfg.NetEager = true
	p.Cfg.BasePath = c12Bases[g.pick(len(c12Bases))]
	p.Cfg.UseHandle = g.p(0.4)
	used := map[string]bool{}
	pickName := func() (string, string) {
		for {
			s, m := c12Services[g.pick(len(c12Services))], c12Methods[g.pick(len(c12Methods))]
			if !used[s+"/"+m] {
				used[s+"/"+m] = true
				return s, m
			}
		}
	}
	n := 1 + g.pick(3)
	for id := 0; id < n; id++ {
		r := &RPC{ID: id}
		r.Transport = []string{TInproc, THTTP}[g.pick(2)]
		r.Svc, r.Meth = pickName()
		r.Kind = []int{KUnary, KServerStream, KClientStream, KBidi}[g.pick(4)]
		exact := "/" + r.Svc + "/" + r.Meth
		r.Call = exact
		r.Expect = "own"
		if g.p(0.55) {
			switch g.pick(27) {
			case 22:
				r.Call, r.Expect = "/"+r.Svc+"/./"+r.Meth, "none" // dot segments: names that path cleaning would turn into a registered one
			case 23:
				r.Call, r.Expect = "/"+r.Svc+"/Other/../"+r.Meth, "none"
			case 24:
				r.Call, r.Expect = "/nosuch.Svc/../"+r.Svc+"/"+r.Meth, "none"
			case 25:
				r.Call, r.Expect = "/"+r.Svc+"//"+r.Meth, "none"
			case 26:
				r.Call, r.Expect = "/.."+exact, "none"
			case 18:
				r.Call, r.Expect = "/extra"+exact, "none" // a segment in front of a registered name
			case 19:
				r.Call, r.Expect = "/a/b"+exact, "none"
			case 20:
				r.Call, r.Expect = "/"+r.Svc+"/x/"+r.Meth, "none" // a segment in the middle
			case 21:
				r.Call, r.Expect = exact+exact, "none" // the name twice
			case 0:
				r.Call, r.Expect = r.Svc+"/"+r.Meth, "own" // missing leading slash is tolerated
			case 1:
				r.Call, r.Expect = "", "none"
			case 2:
				r.Call, r.Expect = "/", "none"
			case 3:
				r.Call, r.Expect = "/"+r.Svc, "none"
			case 4:
				r.Call, r.Expect = r.Svc, "none"
			case 5:
				r.Call, r.Expect = "/"+r.Svc+"/", "none"
			case 6:
				r.Call, r.Expect = exact+"/extra", "none"
			case 7:
				r.Call, r.Expect = exact+"/", "none" // trailing slash: not the registered name
			case 8:
				r.Call, r.Expect = "/"+exact, "none" // empty first segment
			case 9:
				r.Call, r.Expect = "/"+strings.ToUpper(r.Svc)+"/"+r.Meth, "none"
				if strings.ToUpper(r.Svc) == r.Svc {
					r.Call = "/" + strings.ToLower(r.Svc) + "/" + r.Meth
				}
			case 10:
				r.Call, r.Expect = exact[:len(exact)-1], "none"
			case 11:
				r.Call, r.Expect = exact+"x", "none"
			case 12:
				r.Call, r.Expect = "/nosuch.Svc/"+r.Meth, "none"
			case 13:
				r.Call, r.Expect = "/"+r.Svc+"/NoSuch", "none"
			case 14:
				r.Call, r.Expect = "/"+r.Svc+"."+r.Meth, "none"
			case 15:
				r.KindMismatch, r.Expect = true, "none"
			case 16, 17:
				// one character of the name written as a percent escape: a different name
				pos := 1 + g.pick(len(exact)-1)
				if exact[pos] == '/' {
					pos++
				}
				r.Call, r.Expect = fmt.Sprintf("%s%%%02X%s", exact[:pos], exact[pos], exact[pos+1:]), "none"
			}
			// a mutated name may by accident be another registered name: that is checked at oracle time
		}
		switch r.Kind {
		case KUnary:
			r.Client = []Op{{K: "invoke", Msg: g.msg()}}
			r.Handler = []Op{{K: "decode"}, {K: "return", Msg: g.msg()}}
		case KServerStream:
			r.Client = []Op{{K: "send", Msg: g.msg()}, {K: "closesend"}, {K: "recvall"}}
			r.Handler = []Op{{K: "recv"}, {K: "send", Msg: g.msg()}, {K: "return"}}
		default:
			r.Client = []Op{{K: "send", Msg: g.msg()}, {K: "closesend"}, {K: "recvall"}}
			r.Handler = []Op{{K: "recvall"}, {K: "send", Msg: g.msg()}, {K: "return"}}
		}
		if id > 0 && g.p(0.5) {
			r.After = 1 + g.pick(id) // sequential calls: resolution must not depend on earlier calls
		}
		p.RPCs = append(p.RPCs, r)
	}
	// further registered methods nobody calls (near-misses of the calls above)
	for i := 0; i < g.pick(5); i++ {
		s, m := pickName()
		p.Cfg.Extra = append(p.Cfg.Extra, ExtraMethod{Svc: s, Meth: m, Kind: []int{KUnary, KServerStream, KBidi}[g.pick(3)]})
	}
	// a mutated name must not by accident be another registered name
	for _, r := range p.RPCs {
		c := r.Call
		if !strings.HasPrefix(c, "/") {
			c = "/" + c
		}
		c = strings.TrimSuffix(strings.Replace(c, "//", "/", -1), "/")
		if c != "/"+r.Svc+"/"+r.Meth && used[strings.TrimPrefix(c, "/")] {
			r.Call, r.Expect, r.KindMismatch = "/"+r.Svc+"/"+r.Meth, "own", false
		}
	}
	return p
}

// registeredExact: does the call string name exactly a registered method of a
// matching kind (other than the RPC's own)?
func (s *Sim) registeredOther(r *RPC) bool {
	c := r.Call
	if !strings.HasPrefix(c, "/") {
		c = "/" + c
	}
	for _, o := range s.prog.RPCs {
		if o != r && "/"+o.Svc+"/"+o.Meth == c {
			return true
		}
	}
	for _, x := range s.prog.Cfg.Extra {
		if "/"+x.Svc+"/"+x.Meth == c {
			return true
		}
	}
	return false
}

func oracleC12(s *Sim) {
	if s.prog.Profile != "c12" {
		return
	}
	stray := 0
	for _, ev := range s.hist {
		if ev.Op == "stray" {
			stray++
		}
	}
	if stray > 0 {
		var calls []string
		for _, r := range s.prog.RPCs {
			calls = append(calls, fmt.Sprintf("%s:%q", r.Transport, r.Call))
		}
		s.violate("C12", "C12|other-handler-ran", -1, "a handler registered under a name nobody called ran %d time(s); calls made: %v", stray, calls)
	}
	for _, v := range s.views() {
		r := v.r
		if !v.rs.started || s.registeredOther(r) {
			continue
		}
		s.stats.Probes["C12-relevant"]++
		t := v.terminal
		if v.invoke != nil {
			t = v.invoke
		}
		first := v.newstream
		if v.invoke != nil {
			first = v.invoke
		}
		for _, ev := range v.ev {
			if ev.Side == 'c' && ev.Err != nil && ev.Err.Class == "panic" {
				v.fail("C12", "panic|"+callShape(r), "call %q panicked: %s", r.Call, ev.Err.Text)
			}
		}
		entered := v.rs.handlerEntered
		switch r.Expect {
		case "own":
			if entered != 1 {
				v.fail("C12", fmt.Sprintf("registered-method-not-run|%s|base=%s", callShape(r), baseShape(s.prog.Cfg.BasePath)), "call %q (base path %q, HandleServices=%v): the registered handler ran %d times; outcome %v", r.Call, s.prog.Cfg.BasePath, s.prog.Cfg.UseHandle, entered, evErr(t))
			}
		case "none":
			if entered != 0 {
				v.fail("C12", "handler-ran-for-unregistered-name|"+callShape(r), "call %q: handler %s/%s ran although the name does not match it exactly", r.Call, r.Svc, r.Meth)
			}

			// a status error, with the documented code for unknown names
			out := t
			if out == nil {
				out = first
			}
			if out == nil || out.RSeq == 0 {
				continue
			}
			if first != nil && first.Op == "newstream" && first.Err.IsNil() && r.Transport == THTTP {
				out = v.terminal // over HTTP the failure shows at the first receive
				if out == nil {
					continue
				}
			}
			switch {
			case out.Err.Class == "panic":
			case out.Err.Class != "status":
				v.fail("C12", "unknown-name-not-status|"+callShape(r), "call %q: outcome %s is not a status error", r.Call, out.Err)
			case r.KindMismatch:
				if out.Err.Code == 0 {
					v.fail("C12", "kind-mismatch-succeeds", "call %q with the wrong call shape succeeded", r.Call)
				}
			case r.Transport == TInproc && codes.Code(out.Err.Code) != codes.Unimplemented:
				v.fail("C12", "unknown-name-wrong-code|inproc|"+callShape(r), "call %q: got %s, expected Unimplemented", r.Call, out.Err)
			case r.Transport == THTTP && codes.Code(out.Err.Code) != codes.NotFound:
				v.fail("C12", "unknown-name-wrong-code|http|"+callShape(r), "call %q: got %s, expected NotFound", r.Call, out.Err)
			}
		case "either":
			if entered > 1 || stray > 0 {
				v.fail("C12", "other-handler-ran|"+callShape(r), "call %q: handlers ran %d times, stray %d", r.Call, entered, stray)
			}
		}
	}
}

func evErr(e *Event) string {
	if e == nil || e.Err == nil {
		return "-"
	}
	return e.Err.String()
}

func callShape(r *RPC) string {
	exact := "/" + r.Svc + "/" + r.Meth
	c := r.Call
	switch {
	case r.KindMismatch:
		return "kind-mismatch"
	case c == exact:
		return "exact"
	case c == "":
		return "empty"
	case "/"+c == exact:
		return "no-leading-slash"
	case path.Clean("/"+strings.TrimPrefix(c, "/")) != "/"+strings.TrimPrefix(c, "/") || strings.HasPrefix(c, "//"):
		return "unclean-path"
	case !strings.Contains(strings.TrimPrefix(c, "/"), "/"):
		return "single-segment"
	case strings.HasPrefix(c, exact+"/"):
		return "extra-segment"
	case strings.HasPrefix(exact, c):
		return "prefix"
	case strings.HasPrefix(c, exact):
		return "suffix"
	case strings.HasPrefix(c, "//"):
		return "double-slash"
	}
	return "other"
}

func baseShape(b string) string {
	switch {
	case strings.ContainsAny(b, " %{}?#\t"):
		return "needs-escaping"
	case b == "" || b == "/":
		return "root"
	case strings.HasSuffix(b, "/"):
		return "trailing-slash"
	}
	return "no-trailing-slash"
}
