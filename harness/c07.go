package sim

import (
	"bytes"
	"context"
	"encoding/binary"
	"errors"
	"fmt"
	"io"
	"math/rand"
	"net/http"
	"runtime"
	"strings"
	"sync"
	"testing"
	"time"

	"github.com/fullstorydev/grpchan/httpgrpc"
	"google.golang.org/grpc/codes"
	"google.golang.org/protobuf/proto"
)

// C07: framing. The client-side decoder is fed canned reply bodies through
// the http.RoundTripper seam (what an intermediary or a broken server can
// hand it): a recorded-style reply cut at a byte offset with a clean or an
// abrupt ending, or adversarial bytes. The server-side decoder is fed raw
// request bodies by a raw HTTP peer through the real net/http server.

// Canned describes the reply the canned RoundTripper returns.
type Canned struct {
	Msgs     []*MsgSpec `json:"msgs,omitempty"`     // frames encoded by the reference encoder
	Code     int32      `json:"code"`               // trailer status
	TrailerM string     `json:"trailer_msg,omitempty"`
	Trailers []KV       `json:"trailers,omitempty"`
	Cut      int        `json:"cut"`                // body ends after this many bytes (-1: complete)
	Abrupt   bool       `json:"abrupt,omitempty"`   // ending is an error instead of a clean EOF
	Raw      RawStr     `json:"raw,omitempty"`      // if set: the body is exactly this (adversarial)
	RawNote  string     `json:"raw_note,omitempty"`
	Tail     RawStr     `json:"tail,omitempty"`     // bytes appended after the encoded body
	Status   int        `json:"status,omitempty"`   // HTTP status (0 = 200)
	NoGRPC   bool       `json:"no_grpc_hdr,omitempty"`
	Hdrs     []KV       `json:"hdrs,omitempty"`     // extra reply headers
	ChunkN   int        `json:"chunk,omitempty"`    // the body reader hands out at most this many bytes per Read (0 = all)
	Stall    bool       `json:"stall,omitempty"`    // after these bytes the peer neither sends more nor ends the reply (a handler that keeps streaming slowly, a stuck proxy): reads block until the body is closed or the request's context ends
}

// refFrame is the reference model of the wire format: a big-endian int32
// length (negated for the final trailer frame) followed by the payload.
func refFrame(payload []byte, trailer bool) []byte {
	n := int32(len(payload))
	if trailer {
		n = -n
	}
	var b [4]byte
	binary.BigEndian.PutUint32(b[:], uint32(n))
	return append(b[:], payload...)
}

// body returns the complete encoded body and the end offset of each data frame.
func (c *Canned) body() (full []byte, ends []int, trailerStart int) {
	for _, m := range c.Msgs {
		b, err := proto.Marshal(m.Build())
		if err != nil {
			panic(err)
		}
		full = append(full, refFrame(b, false)...)
		ends = append(ends, len(full))
	}
	trailerStart = len(full)
	tr := &httpgrpc.HttpTrailer{Code: c.Code, Message: c.TrailerM}
	if tr.Message == "" {
		// the trailer frame must never be empty (its size must be negative),
		// which is why a server always fills in the code's name
		tr.Message = codes.Code(uint32(c.Code)).String()
	}
	if len(c.Trailers) > 0 {
		tr.Metadata = map[string]*httpgrpc.TrailerValues{}
		for k, vs := range kvToMD(c.Trailers) {
			tr.Metadata[k] = &httpgrpc.TrailerValues{Values: vs}
		}
	}
	tb, err := proto.MarshalOptions{Deterministic: true}.Marshal(tr)
	if err != nil {
		panic(err)
	}
	full = append(full, refFrame(tb, true)...)
	full = append(full, []byte(c.Tail)...)
	return
}

type cannedBody struct {
	data   []byte
	abrupt bool
	chunk  int
	closed bool
	stall  bool
	ctx    context.Context
	done   chan struct{}
	once   sync.Once
}

type abruptErr struct{}

func (abruptErr) Error() string { return "simulated: connection reset while reading body" }

func (b *cannedBody) Read(p []byte) (int, error) {
	if len(b.data) == 0 {
		if b.stall {
			select {
			case <-b.done:
				return 0, errors.New("simulated: read on closed response body")
			case <-b.ctx.Done():
				return 0, b.ctx.Err()
			}
		}
		if b.abrupt {
			return 0, abruptErr{}
		}
		return 0, io.EOF
	}
	n := len(p)
	if b.chunk > 0 && n > b.chunk {
		n = b.chunk
	}
	n = copy(p[:n], b.data)
	b.data = b.data[n:]
	return n, nil
}
func (b *cannedBody) Close() error {
	b.closed = true
	b.once.Do(func() { close(b.done) })
	return nil
}

// cannedRT answers every request with the program's canned reply.
type cannedRT struct {
	s *Sim
}

func (rt *cannedRT) RoundTrip(r *http.Request) (*http.Response, error) {
	c := rt.s.prog.Canned
	// consume the request body like a server would
	if r.Body != nil {
		go func() {
			io.Copy(io.Discard, r.Body)
			r.Body.Close()
		}()
	}
	var data []byte
	if len(c.Raw) > 0 || c.RawNote != "" {
		data = []byte(c.Raw)
	} else {
		full, _, _ := c.body()
		data = full
		if c.Cut >= 0 && c.Cut < len(full) {
			data = full[:c.Cut]
		}
	}
	st := c.Status
	if st == 0 {
		st = 200
	}
	h := http.Header{}
	h.Set("Content-Type", httpgrpc.StreamRpcContentType_V1)
	for _, kv := range c.Hdrs {
		h.Add(kv.K, string(kv.V))
	}
	return &http.Response{
		Status: fmt.Sprintf("%d %s", st, http.StatusText(st)), StatusCode: st, Proto: "HTTP/1.1", ProtoMajor: 1, ProtoMinor: 1,
		Header: h, Body: &cannedBody{data: data, abrupt: c.Abrupt, chunk: c.ChunkN, stall: c.Stall, ctx: r.Context(), done: make(chan struct{})}, ContentLength: -1, Request: r,
	}, nil
}

// oracleC07canned judges a run against a canned reply.
func oracleC07canned(s *Sim) {
	c := s.prog.Canned
	if c == nil {
		return
	}
	for _, v := range s.views() {
		if v.r.Transport != THTTP || v.r.Kind == KUnary {
			continue
		}
		s.stats.Probes["C07-relevant"]++
		for _, ev := range v.ev {
			if ev.Err != nil && ev.Err.Class == "panic" {
				v.fail("C07", "panic|"+ev.Op, "%s panicked on a canned reply: %s", ev.Op, ev.Err.Text)
			}
		}
		if len(c.Raw) > 0 || c.RawNote != "" {
			oracleC07raw(v, c)
			continue
		}
		full, ends, _ := c.body()
		cut := c.Cut
		if cut < 0 || cut > len(full) {
			cut = len(full)
		}
		complete := cut >= len(full)-len(c.Tail)
		if !complete {
			s.stats.Probes["c07-truncated"]++
		}
		// messages wholly before the cut
		avail := 0
		for _, e := range ends {
			if e <= cut {
				avail++
			}
		}
		got := 0
		for i, rv := range v.cRecv {
			if rv.RSeq == 0 || !rv.Err.IsNil() {
				continue
			}
			if i >= len(c.Msgs) || got >= avail {
				v.fail("C07", "fabricated-message", "receive #%d returned a message (%s) but only %d complete frames precede the cut at %d", i, rv.Got, avail, cut)
				break
			}
			if !msgEqual(rv.GotMsg, c.Msgs[got]) {
				v.fail("C07", "wrong-message", "receive #%d returned %s, not the message encoded in frame %d", i, rv.Got, got)
				break
			}
			got++
		}
		t := v.terminal
		if t == nil {
			continue
		}
		ending := "clean"
		if c.Abrupt {
			ending = "abrupt"
		}
		if !complete {
			where := "between-frames"
			_, _, ts := c.body()
			switch {
			case cut > ts+4:
				where = "inside-trailer-body"
			case cut == ts+4:
				where = "after-trailer-preface"
			case cut > ts:
				where = "inside-trailer-preface"
			default:
				for i, e := range ends {
					start := 0
					if i > 0 {
						start = ends[i-1]
					}
					if cut > start && cut < e {
						where = "inside-data-frame"
						if cut < start+4 {
							where = "inside-data-preface"
						}
					}
				}
			}
			if okTerminal(t, v.single) {
				v.fail("C07", "truncation-reported-as-success|"+ending+"|"+where, "reply body cut at byte %d of %d (%s ending, %s): the client reports success (%s) after %d messages", cut, len(full), ending, where, t.Err, got)
				v.fail("C02", "truncation-reported-as-success|"+ending+"|"+where, "reply body cut at byte %d of %d (%s ending): the client reports success", cut, len(full), ending)
			}
			continue
		}
		// complete reply: everything must arrive and the status must be the trailer's
		if !v.single && got != len(c.Msgs) && (okTerminal(t, v.single) || t.Err.Class == "status") && c.Code == 0 {
			v.fail("C07", "complete-reply-missing-messages", "complete reply with %d frames: client got %d messages then %s", len(c.Msgs), got, t.Err)
		}
		code, msg := t.Err.ViaConvert()
		if len(c.Tail) > 0 {
			continue // garbage after the trailer: outcome unspecified beyond "no fabricated message"
		}
		if v.single {
			continue
		}
		wantMsg := c.TrailerM
		if wantMsg == "" {
			wantMsg = codes.Code(uint32(c.Code)).String()
		}
		if code != codes.Code(uint32(c.Code)) || (c.Code != 0 && msg != wantMsg) {
			v.fail("C07", "complete-reply-wrong-status", "complete reply with trailer (%d,%q): client got %s", c.Code, c.TrailerM, t.Err)
		}
		if okTerminal(t, v.single) || t.Err.Class == "status" {
			if ok, why := mdContains(t.MD2, kvToMD(c.Trailers)); !ok {
				v.fail("C07", "complete-reply-wrong-trailers", "trailers after the final status: %s", why)
			}
		}
	}
}

// oracleC07raw: adversarial body. Whatever the client returns, it may only
// return messages that are really framed in the body, never succeed unless
// the body is a well-formed stream, and never allocate beyond the limit.
func oracleC07raw(v *view, c *Canned) {
	msgs, wellFormed := refDecode([]byte(c.Raw))
	got := 0
	for i, rv := range v.cRecv {
		if rv.RSeq == 0 {
			continue
		}
		if !rv.Err.IsNil() {
			if strings.Contains(rv.Err.Msg, "invalid message") {
				got++ // a frame whose payload does not decode is consumed
			}
			continue
		}
		if got >= len(msgs) {
			v.fail("C07", "fabricated-message|raw", "adversarial body (%s): receive #%d returned a message (%s) that is not framed in the body", c.RawNote, i, rv.Got)
			return
		}
		b, _ := proto.MarshalOptions{Deterministic: true}.Marshal(rv.GotMsg)
		want := msgs[got]
		if !bytes.Equal(b, want) {
			// compare semantically: decode want
			wm := v.newMsg()
			if err := proto.Unmarshal(want, wm); err != nil || !proto.Equal(wm, rv.GotMsg) {
				v.fail("C07", "wrong-message|raw", "adversarial body (%s): receive #%d returned %s, frame %d holds other bytes", c.RawNote, i, rv.Got, got)
				return
			}
		}
		got++
	}
	if t := v.terminal; t != nil && okTerminal(t, v.single) && !wellFormed {
		v.fail("C07", "malformed-body-reported-as-success", "adversarial body (%s) is not a well-formed stream but the client reports success", c.RawNote)
	}
}

func (v *view) newMsg() proto.Message { return (&MsgSpec{Kind: 1}).Build() }

// refDecode is the reference decoder: the payloads of the data frames that
// are completely present, and whether the body is exactly a sequence of data
// frames followed by one trailer frame.
func refDecode(b []byte) (msgs [][]byte, wellFormed bool) {
	for {
		if len(b) < 4 {
			return msgs, false
		}
		n := int32(binary.BigEndian.Uint32(b[:4]))
		b = b[4:]
		if n < 0 {
			if n == -2147483648 {
				return msgs, false
			}
			k := int(-n)
			if len(b) < k {
				return msgs, false
			}
			// the trailer frame ends the stream; anything after it is ignored
			var tr httpgrpc.HttpTrailer
			return msgs, proto.Unmarshal(b[:k], &tr) == nil
		}
		if int(n) > len(b) {
			return msgs, false
		}
		msgs = append(msgs, b[:n])
		b = b[n:]
	}
}

func init() {
	extraOracles = append(extraOracles, oracleC07canned)
	specialGenerators["c07"] = genC07
	specialWorkers["c07"] = workerC07
	// the same canned replies as plain seeded runs (no corpus enumeration):
	// part of the C05 check (a reply the client has rejected, from a peer that
	// neither continues nor ends it, must leave no goroutine behind)
	specialGenerators["c07r"] = genC07
}

// cannedProgram wraps a canned reply into a one-RPC program.
func cannedProgram(seed int64, kind int, c *Canned, g *gen) *Program {
	p := &Program{Profile: "c07", Seed: seed, Canned: c}
	p.Cfg.ProxyMode = 2
	p.Cfg.Policy = int(seed % 3)
	r := &RPC{ID: 0, Transport: THTTP, Kind: kind, Svc: "sim.S", Meth: "M0", Call: "/sim.S/M0"}
	switch kind {
	case KServerStream, KBidi:
		r.Client = []Op{{K: "send", Msg: &MsgSpec{Tag: 1, Size: 5}}, {K: "closesend"}, {K: "recvall"}, {K: "recv"}}
	case KClientStream:
		r.Client = []Op{{K: "send", Msg: &MsgSpec{Tag: 1, Size: 5}}, {K: "closesend"}, {K: "recv"}, {K: "recv"}}
	}
	if g != nil && g.p(0.3) {
		r.NTlrOpts = 1
	}
	r.Handler = []Op{{K: "return"}}
	p.RPCs = []*RPC{r}
	return p
}

func c07Corpus() []*Canned {
	return []*Canned{
		{Msgs: []*MsgSpec{{Tag: 1, Size: 9}, {Tag: 2, Kind: 1}, {Tag: 3, Size: 40, Kind: 5}}, Code: 0},
		{Msgs: []*MsgSpec{{Tag: 4, Size: 3}}, Code: 5, TrailerM: "not found", Trailers: []KV{{K: "t1", V: "v1"}, {K: "t1", V: "v2"}, {K: "x-bin", V: "ab"}}},
		{Msgs: nil, Code: 0},
		{Msgs: nil, Code: 13, TrailerM: "boom"},
		{Msgs: []*MsgSpec{{Tag: 5, Kind: 1}, {Tag: 6, Kind: 1}}, Code: 0, Trailers: []KV{{K: "k", V: ""}}},
		{Msgs: []*MsgSpec{{Tag: 7, Size: 300, Kind: 2}, {Tag: 8, Size: 1}}, Code: 16, TrailerM: "unauth"},
	}
}

var adversarial = []struct {
	note string
	body []byte
}{
	{"empty body", nil},
	{"one byte", []byte{0}},
	{"three bytes", []byte{0, 0, 0}},
	{"size 0 only", []byte{0, 0, 0, 0}},
	{"size 1 no payload", []byte{0, 0, 0, 1}},
	{"size -1 no payload", []byte{0xff, 0xff, 0xff, 0xff}},
	{"size -1 bad payload", []byte{0xff, 0xff, 0xff, 0xff, 0xff}},
	{"size MinInt32", []byte{0x80, 0, 0, 0, 1, 2, 3}},
	{"size MaxInt32", []byte{0x7f, 0xff, 0xff, 0xff, 1, 2, 3}},
	{"size 100MiB+1", []byte{0x06, 0x40, 0x00, 0x01, 1, 2, 3}},
	{"size 100MiB", []byte{0x06, 0x40, 0x00, 0x00, 1, 2, 3}},
	{"size 1GiB", []byte{0x40, 0, 0, 0}},
	{"trailer size -(100MiB+1)", []byte{0xf9, 0xbf, 0xff, 0xff, 1}},
	{"valid frame then garbage", append(refFrame([]byte{0x10, 0x07}, false), 0xde, 0xad, 0xbe)},
	{"frame holding undecodable protobuf", append(refFrame([]byte{0xff, 0xff, 0xff}, false), refFrame([]byte{0x12, 0x02, 'O', 'K'}, true)...)},
	{"undecodable frame, good frame, trailer", append(append(refFrame([]byte{0xff, 0xff, 0xff}, false), refFrame([]byte{0x10, 0x07}, false)...), refFrame([]byte{0x12, 0x02, 'O', 'K'}, true)...)},
	{"two trailers", append(refFrame([]byte{0x08, 0x00}, true), refFrame([]byte{0x08, 0x05}, true)...)},
	{"trailer with zero size", append(refFrame([]byte{0x10, 0x01}, false), 0, 0, 0, 0)},
}

func genC07(g *gen, seed int64) *Program {
	rng := g.rng
	kinds := []int{KServerStream, KServerStream, KBidi, KClientStream}
	kind := kinds[rng.Intn(len(kinds))]
	switch rng.Intn(10) {
	case 0, 1, 2: // adversarial catalogue and random bytes
		c := &Canned{ChunkN: []int{0, 1, 3, 7}[rng.Intn(4)], Abrupt: rng.Intn(4) == 0}
		if rng.Intn(2) == 0 {
			a := adversarial[rng.Intn(len(adversarial))]
			c.Raw, c.RawNote = RawStr(a.body), a.note
		} else {
			n := rng.Intn(40)
			b := make([]byte, n)
			for i := range b {
				if rng.Intn(3) == 0 {
					b[i] = []byte{0, 0, 0, 1, 0xff, 0x80, 0x7f}[rng.Intn(7)]
				} else {
					b[i] = byte(rng.Intn(256))
				}
			}
			c.Raw, c.RawNote = RawStr(b), "random bytes"
		}
		if _, ntr, _, _ := splitFrames([]byte(c.Raw)); rng.Intn(3) == 0 && ntr == 0 {
			// the peer goes quiet inside the reply (by the reference decoder's
			// reading there is no complete trailer frame): whatever the client
			// makes of the bytes so far, it must not be left with a goroutine
			// that reads on for as long as the peer likes
			c.Stall, c.Abrupt = true, false
		}
		return cannedProgram(seed, kind, c, g)
	}
	// a generated reply, cut somewhere
	c := &Canned{ChunkN: []int{0, 0, 1, 2, 5, 64}[rng.Intn(6)], Abrupt: rng.Intn(3) == 0}
	n := rng.Intn(4)
	for i := 0; i < n; i++ {
		c.Msgs = append(c.Msgs, g.msg())
		if c.Msgs[i].Size > 400 {
			c.Msgs[i].Size = 400
		}
	}
	if rng.Intn(3) == 0 {
		c.Code = allCodes[rng.Intn(16)]
		c.TrailerM = "m"
	}
	if rng.Intn(3) == 0 {
		c.Trailers = []KV{{K: "tk", V: "tv"}}
	}
	full, _, _ := c.body()
	switch rng.Intn(6) {
	case 0:
		c.Cut = -1
		c.Abrupt = false
	case 1:
		c.Cut = -1
		c.Abrupt = false
		c.Tail = RawStr([]byte{1, 2, 3, 4, 5}[:1+rng.Intn(5)])
	default:
		c.Cut = rng.Intn(len(full) + 1)
	}
	return cannedProgram(seed, kind, c, g)
}

// workerC07 enumerates, completely, every cut offset (clean and abrupt) of
// every reply in the fixed corpus for every stream kind, measures allocation
// for over-limit size prefaces, and then continues with seeded random cases
// until the budget is used.
func workerC07(t *testing.T, out *WorkerOut) {
	start := time.Now()
	widx, wn := *flagWIdx, *flagWN
	n := 0
	enumerated := 0
	record := func(res *Result, seed int64) {
		out.Runs++
		out.Steps += int64(res.Stats.Steps)
		for k, v := range res.Stats.Probes {
			out.Probes[k] += v
		}
		out.Shapes[res.Shape]++
		if res.Stats.Probes["C07-relevant"] > 0 {
			out.NonTriv++
			c07shapes[res.Shape] = true
		}
		if res.Fatal != "" {
			out.Fatal = append(out.Fatal, fmt.Sprintf("seed %d: %s", seed, res.Fatal))
		}
		mine := false
		for _, v := range res.Viols {
			if v.Prop == "C07" {
				mine = true
			} else {
				out.Notes[v.Sig]++
			}
		}
		if mine && keepFailure(len(out.Failures), res) {
			res.HistText = res.histText()
			out.Failures = append(out.Failures, res)
		}
		if len(out.Samples) < 2 && out.Runs%211 == 5 {
			res.HistText = res.histText()
			out.Samples = append(out.Samples, res)
		}
	}
	corpus := c07Corpus()
	total := 0
	for ci, base := range corpus {
		full, _, _ := base.body()
		for _, kind := range []int{KServerStream, KBidi, KClientStream} {
			for cut := 0; cut <= len(full); cut++ {
				for _, abrupt := range []bool{false, true} {
					if cut == len(full) && abrupt {
						continue
					}
					total++
					if n++; n%wn != widx {
						continue
					}
					c := *base
					c.Cut, c.Abrupt = cut, abrupt
					if cut == len(full) {
						c.Cut = -1
					}
					seed := int64(ci*1_000_000 + kind*100_000 + cut*2)
					if abrupt {
						seed++
					}
					prog := cannedProgram(seed, kind, &c, nil)
					res := RunOne(t, prog, NewSearchTape(seed*31+7), false)
					record(res, seed)
					enumerated++
					runtime.GC()
				}
			}
		}
	}
	out.Extra = map[string]any{"c07_enumeration": fmt.Sprintf("every cut offset 0..len, clean and abrupt ending, of %d corpus replies x 3 stream kinds = %d cases, enumerated completely across the workers", len(corpus), total), "c07_enumerated_cases_this_worker": enumerated, "exhaustive_part": true}
	// allocation metering for over-limit prefaces (only worker 0: it is
	// deterministic): the client-side decoder through the canned RoundTripper,
	// the server-side decoder through the raw peer
	if widx == 0 {
		for i, a := range adversarial {
			c := &Canned{Raw: RawStr(a.body), RawNote: a.note}
			prog := cannedProgram(int64(900_000_000+i), KServerStream, c, nil)
			prog.Cfg.MeterAlloc = true
			res := RunOne(t, prog, NewSearchTape(1), false)
			record(res, prog.Seed)
			runtime.GC()
			sp := serverAllocProgram(int64(910_000_000+i), a.body, a.note)
			res = RunOne(t, sp, NewSearchTape(1), false)
			record(res, sp.Seed)
			runtime.GC()
		}
	}
	// seeded random cases for the rest of the budget
	rng := rand.New(rand.NewSource(*flagSeed))
	for i := 0; ; i++ {
		if *flagBudget > 0 && time.Since(start) > *flagBudget {
			break
		}
		if *flagBudget == 0 && i >= 200 {
			break
		}
		seed := *flagSeed + int64(i)
		_ = rng
		prog := Generate("c07", seed)
		res := RunOne(t, prog, NewSearchTape(seed*1000003+7), false)
		record(res, seed)
		runtime.GC()
	}
	for k := range c07shapes {
		out.NTShapes = append(out.NTShapes, k)
	}
}

var c07shapes = map[string]bool{}


// serverAllocProgram: a raw peer posts an adversarial body to a
// client-streaming method; the handler receives until it is told to stop.
func serverAllocProgram(seed int64, body []byte, note string) *Program {
	p := &Program{Profile: "c07", Seed: seed}
	p.Cfg.NetEager = true
	p.Cfg.MeterAlloc = true
	r := &RPC{ID: 0, Transport: THTTP, Kind: KClientStream, Svc: "sim.S", Meth: "M0", Call: "/sim.S/M0", RawClient: true, StopOnErr: true}
	r.Client = []Op{{K: "raw", Raw: &RawReq{Method: "POST", Path: r.Call, Hdrs: []KV{{K: "Content-Type", V: RawStr(httpgrpc.StreamRpcContentType_V1)}}, Body: RawStr(body), Note: note}}}
	r.Handler = []Op{{K: "recvall"}, {K: "send", Msg: &MsgSpec{Tag: 2, Size: 3}}, {K: "return"}}
	p.RPCs = []*RPC{r}
	return p
}
