package sim

import (
	"fmt"
	"sort"
	"strings"

	"google.golang.org/grpc/codes"
	"google.golang.org/grpc/metadata"
	"google.golang.org/protobuf/proto"
	"google.golang.org/protobuf/types/known/wrapperspb"
)

// view is the per-RPC projection of the history the oracles work on.
type view struct {
	s  *Sim
	rs *rpcState
	r  *RPC
	ev []*Event

	cSend, cRecv, hSend, hRecv []*Event
	hdrSets, tlrSets           []*Event
	cHeader, cTrailer          []*Event
	hStart, hReturn            *Event
	invoke, newstream          *Event
	closesend                  *Event
	terminal                   *Event
	trim                       bool // compare metadata as HTTP header rules deliver it (see blankLimit)
	single                     bool // single-response kind
	ctxSeq                     int
	cutSeq                     int
}

func (s *Sim) views() []*view {
	var out []*view
	for _, rs := range s.rpcs {
		v := &view{s: s, rs: rs, r: rs.r, ctxSeq: rs.ctxDoneSeq, cutSeq: rs.cutSeq}
		v.single = rs.r.Kind == KUnary || rs.r.Kind == KClientStream
		out = append(out, v)
	}
	for _, ev := range s.hist {
		if ev.RPC < 0 || ev.RPC >= len(out) {
			continue
		}
		v := out[ev.RPC]
		v.ev = append(v.ev, ev)
		switch {
		case ev.Side == 'c' && ev.Op == "send":
			v.cSend = append(v.cSend, ev)
		case ev.Side == 'c' && ev.Op == "recv":
			v.cRecv = append(v.cRecv, ev)
		case ev.Side == 'c' && ev.Op == "invoke":
			v.invoke = ev
		case ev.Side == 'c' && ev.Op == "newstream":
			v.newstream = ev
		case ev.Side == 'c' && ev.Op == "closesend":
			if v.closesend == nil {
				v.closesend = ev
			}
		case ev.Side == 'c' && ev.Op == "header":
			v.cHeader = append(v.cHeader, ev)
		case ev.Side == 'c' && ev.Op == "trailer":
			v.cTrailer = append(v.cTrailer, ev)
		case ev.Side == 'h' && ev.Op == "send":
			v.hSend = append(v.hSend, ev)
		case ev.Side == 'h' && ev.Op == "recv":
			v.hRecv = append(v.hRecv, ev)
		case ev.Side == 'h' && (ev.Op == "sethdr" || ev.Op == "sendhdr"):
			v.hdrSets = append(v.hdrSets, ev)
		case ev.Side == 'h' && ev.Op == "settlr":
			v.tlrSets = append(v.tlrSets, ev)
		case ev.Side == 'h' && ev.Op == "hstart":
			if v.hStart == nil {
				v.hStart = ev
			}
		case ev.Side == 'h' && ev.Op == "hreturn":
			if v.hReturn == nil {
				v.hReturn = ev
			}
		}
	}
	for _, v := range out {
		sort.SliceStable(v.cRecv, func(i, j int) bool { return v.cRecv[i].Seq < v.cRecv[j].Seq })
		v.findTerminal()
	}
	return out
}

func (v *view) findTerminal() {
	switch {
	case v.r.Kind == KUnary:
		if v.invoke != nil && v.invoke.RSeq != 0 {
			v.terminal = v.invoke
		}
	case v.newstream != nil && v.newstream.RSeq != 0 && !v.newstream.Err.IsNil():
		v.terminal = v.newstream
	case v.stubFail() != nil:
		v.terminal = v.stubFail()
	case v.single:
		for _, ev := range v.cRecv {
			if ev.RSeq != 0 {
				v.terminal = ev
				break
			}
		}
	default:
		for _, ev := range v.cRecv {
			if ev.RSeq != 0 && !ev.Err.IsNil() {
				v.terminal = ev
				break
			}
		}
	}
}

// stubFail: the request phase of a server-stream call made the way generated
// stubs make it (SendMsg, CloseSend) failed; that error is what the caller of
// the stub gets, with no stream to ask for anything else.
func (v *view) stubFail() *Event {
	for _, ev := range v.ev {
		if ev.Side == 'c' && (ev.Op == "send" || ev.Op == "closesend") && ev.Flags["stub"] == "1" && ev.RSeq != 0 && ev.Err != nil && !ev.Err.IsNil() {
			if ev.Msg != nil && ev.Msg.Kind == 4 {
				return nil // the caller's own request cannot be encoded: nothing to compare with
			}
			return ev
		}
	}
	return nil
}

func (v *view) sig(prop, clause string) string {
	return fmt.Sprintf("%s|%s|%s|%s", prop, v.r.Transport, kindNames[v.r.Kind], clause)
}

func (v *view) relevant(prop string) { v.s.stats.Probes[prop+"-relevant"]++ }

func (v *view) fail(prop, clause string, f string, a ...any) {
	text := fmt.Sprintf("rpc%d %s %s: ", v.r.ID, v.r.Transport, kindNames[v.r.Kind]) + fmt.Sprintf(f, a...)
	v.s.viols = append(v.s.viols, Violation{Prop: prop, Sig: v.sig(prop, clause), RPC: v.r.ID, Text: text})
}

// ctxDoneBefore: the caller's context had ended before seq.
func (v *view) ctxDoneBefore(seq int) bool { return v.ctxSeq != 0 && v.ctxSeq < seq }
func (v *view) cutBefore(seq int) bool     { return v.cutSeq != 0 && v.cutSeq < seq }
func (v *view) disturbedBefore(seq int) bool {
	return v.ctxDoneBefore(seq) || v.cutBefore(seq)
}

func okTerminal(ev *Event, single bool) bool {
	if ev == nil || ev.Err == nil {
		return false
	}
	if ev.Op == "invoke" {
		return ev.Err.IsNil()
	}
	if ev.Op == "newstream" || ev.Op == "send" || ev.Op == "closesend" {
		return false
	}
	if single {
		return ev.Err.IsNil()
	}
	return ev.Err.IsEOF()
}

func msgEqual(got proto.Message, want *MsgSpec) bool {
	if got == nil {
		return false
	}
	return proto.Equal(got, want.Build())
}

// matchPrefix checks that the messages in recvs (successful receives, in
// order) are a prefix of the messages in sends, where a send that failed or
// has not returned may be skipped but a successful one may not, and each
// message was received only after its send began.
func (v *view) matchPrefix(prop string, dir string, recvs, sends []*Event) (matched int) {
	j := 0
	for i, rv := range recvs {
		if rv.RSeq == 0 || !rv.Err.IsNil() || rv.GotMsg == nil {
			continue
		}
		found := false
		for j < len(sends) {
			sd := sends[j]
			j++
			if msgEqual(rv.GotMsg, sd.Msg) {
				if sd.Seq > rv.RSeq {
					v.fail(prop, dir+"-received-before-sent", "%s message #%d (seq %d) equals a message whose send only began at seq %d", dir, i, rv.RSeq, sd.Seq)
				}
				found = true
				matched++
				break
			}
			if sd.RSeq != 0 && sd.Err.IsNil() {
				// a successful send was skipped or its content differs
				clause := dir + "-wrong-or-missing-message"
				if v.mutatedBefore(rv, sd) {
					clause = dir + "-sees-later-mutation"
					v.fail("C06", clause, "%s receive #%d (seq %d..%d) got %s, which is not the message handed over by send #%d (tag %d) but reflects the sender's later mutation", dir, i, rv.Seq, rv.RSeq, rv.Got, j-1, tagOf(sd.Msg))
				}
				if rv.Flags["junkdst"] == "1" && v.r.Transport == TInproc {
					v.fail("C06", dir+"-merged-into-destination", "%s receive #%d into a pre-filled destination got %s, not equal to the message sent (tag %d)", dir, i, rv.Got, tagOf(sd.Msg))
				}
				v.fail(prop, clause, "%s receive #%d (seq %d..%d) got %s, expected the message of send #%d (tag %d, %s); received sequence is not a prefix of the sent sequence", dir, i, rv.Seq, rv.RSeq, rv.Got, j-1, tagOf(sd.Msg), digestMsg(sd.Msg.Build()))
				return matched
			}
		}
		if !found {
			v.fail(prop, dir+"-fabricated-or-duplicated", "%s receive #%d (seq %d) got %s which matches no remaining sent message (%d sends)", dir, i, rv.RSeq, rv.Got, len(sends))
			return matched
		}
	}
	return matched
}

// mutatedBefore: the sender mutated its object (after the send returned)
// before the receive returned.
func (v *view) mutatedBefore(rv, sd *Event) bool {
	for _, ev := range v.ev {
		if ev.Op == "mutate" && ev.Side != rv.Side && ev.Seq < rv.RSeq && strings.HasPrefix(ev.Note, "s") {
			return true
		}
	}
	return false
}

func tagOf(m *MsgSpec) uint32 {
	if m == nil {
		return 0
	}
	return m.Tag
}

func countOK(evs []*Event, beforeSeq int) int {
	n := 0
	for _, ev := range evs {
		if ev.RSeq != 0 && ev.Err.IsNil() && (beforeSeq == 0 || ev.Seq < beforeSeq) {
			n++
		}
	}
	return n
}

func countGot(evs []*Event) int {
	n := 0
	for _, ev := range evs {
		if ev.RSeq != 0 && ev.Err.IsNil() && ev.GotMsg != nil {
			n++
		}
	}
	return n
}

// ---------------------------------------------------------------------------

func (s *Sim) runOracles() {
	for _, ev := range s.hist {
		if ev.Err != nil && ev.Err.Class == "panic" {
			rpc := ev.RPC
			tr, kd := "?", "?"
			if rpc >= 0 && rpc < len(s.rpcs) {
				tr, kd = s.rpcs[rpc].r.Transport, kindNames[s.rpcs[rpc].r.Kind]
			}
			s.viols = append(s.viols, Violation{Prop: "C05", RPC: rpc, Sig: fmt.Sprintf("C05|%s|%s|panic|%c-%s", tr, kd, ev.Side, ev.Op),
				Text: fmt.Sprintf("rpc%d: %c.%s panicked: %s\n%s", rpc, ev.Side, ev.Op, ev.Err.Text, ev.Err.Msg)})
		}
	}
	if s.env != nil {
		if l := s.env.serverLog(); strings.Contains(l, "panic serving") {
			s.viols = append(s.viols, Violation{Prop: "C05", RPC: -1, Sig: "C05|http|server-panic", Text: "net/http recovered a panic in the HTTP handler: " + trunc(l, 1500)})
		}
	}
	for _, v := range s.views() {
		if !v.rs.started {
			continue
		}
		if s.prog.Canned != nil || v.r.RawClient {
			continue // canned reply / raw peer: judged by the dedicated oracles only
		}
		relaxHugeCodes = v.r.Transport == TGRPC
		v.oracleC01()
		v.oracleC02()
		v.oracleC03()
		v.oracleC04()
		v.oracleC05()
		v.oracleC06()
		v.oracleC08()
		v.oracleC10()
	}
	relaxHugeCodes = false
	for _, f := range extraOracles {
		f(s)
	}
}

var extraOracles []func(s *Sim)

func trunc(s string, n int) string {
	if len(s) > n {
		return s[:n] + "..."
	}
	return s
}

// C01 ------------------------------------------------------------------------

func (v *view) oracleC01() {
	if countGot(v.hRecv)+countGot(v.cRecv) > 0 || (v.invoke != nil && v.invoke.GotMsg != nil) {
		v.relevant("C01")
	}
	if v.r.Kind == KUnary {
		// handler's decoded request
		for _, rv := range v.hRecv {
			if rv.RSeq != 0 && rv.Err.IsNil() && v.invoke != nil && !msgEqual(rv.GotMsg, v.invoke.Msg) {
				if v.mutatedBefore(rv, v.invoke) {
					v.fail("C06", "c2h-sees-later-mutation", "handler decoded %s at seq %d, not the request handed to Invoke but its later mutation", rv.Got, rv.RSeq)
				}
				v.fail("C01", "c2h-wrong-or-missing-message", "handler decoded %s, not equal to the request sent (tag %d, %s)", rv.Got, tagOf(v.invoke.Msg), digestMsg(v.invoke.Msg.Build()))
			}
		}
		if v.invoke != nil && v.invoke.RSeq != 0 && v.invoke.Err.IsNil() && v.invoke.Flags["mismatch"] == "" {
			if len(v.hSend) == 0 {
				v.fail("C01", "h2c-fabricated-or-duplicated", "Invoke returned nil with response %s but the handler produced no response", v.invoke.Got)
			} else if !msgEqual(v.invoke.GotMsg, v.hSend[0].Msg) {
				if v.invoke.Flags["junkdst"] == "1" && v.r.Transport == TInproc {
					v.fail("C06", "h2c-merged-into-destination", "Invoke into a pre-filled response got %s, not equal to the handler's response", v.invoke.Got)
				}
				v.fail("C01", "h2c-wrong-or-missing-message", "Invoke returned response %s, not equal to the handler's response (tag %d, %s)", v.invoke.Got, tagOf(v.hSend[0].Msg), digestMsg(v.hSend[0].Msg.Build()))
			}
		}
		return
	}
	v.matchPrefix("C01", "c2h", v.hRecv, v.cSend)
	v.matchPrefix("C01", "h2c", v.cRecv, v.hSend)
	// clean end seen by the handler => it has every successfully sent request
	for _, rv := range v.hRecv {
		if rv.RSeq != 0 && !rv.Err.IsNil() && !rv.Err.IsEOF() {
			break // the handler was already told that receiving failed
		}
		if rv.RSeq != 0 && rv.Err.IsEOF() {
			lim := 0
			if v.closesend != nil {
				lim = v.closesend.Seq
			}
			want := 0
			for _, sd := range v.cSend {
				if sd.RSeq != 0 && sd.Err.IsNil() && sd.RSeq < rv.RSeq && (lim == 0 || sd.Seq < lim) {
					want++
				}
			}
			got := 0
			for _, r2 := range v.hRecv {
				if r2.RSeq != 0 && r2.RSeq < rv.RSeq && r2.Err.IsNil() {
					got++
				}
			}
			if got < want {
				v.fail("C01", "c2h-clean-end-with-missing-messages", "handler's receive returned io.EOF (clean end of requests) at seq %d after %d messages, but %d sends had returned nil", rv.RSeq, got, want)
			}
			break
		}
	}
	// success seen by the client => it has every successfully sent response
	if okTerminal(v.terminal, v.single) && !v.single {
		want := countOK(v.hSend, 0)
		got := 0
		for _, r2 := range v.cRecv {
			if r2.RSeq != 0 && r2.RSeq < v.terminal.RSeq && r2.Err.IsNil() {
				got++
			}
		}
		if got < want {
			v.fail("C01", "h2c-success-with-missing-messages", "client saw end of stream (success) at seq %d after %d messages, but the handler's %d sends had returned nil", v.terminal.RSeq, got, want)
			if v.ctxDoneBefore(v.terminal.RSeq) {
				v.fail("C04", "success-with-missing-data", "after the context ended (%s) the client saw success with %d of %d responses", v.rs.ctxCause, got, want)
			}
		}
	}
}

// wireLimit names a limitation of the HTTP wire format that applies to this
// call, or "". It only refines violation signatures so that the recorded
// known findings stay specific; it never suppresses a clause.
//   - streaming: the trailer frame is a protobuf message with string fields,
//     so a '-bin' trailer value or a status message that is not valid UTF-8
//     makes it unencodable;
//   - unary: the status message travels in an HTTP header, where CR/LF
//     become blanks and outer blanks are trimmed.
func (v *view) wireLimit() string {
	if v.r.Transport != THTTP || v.hReturn == nil {
		return ""
	}
	msg := ""
	switch v.hReturn.Err.Class {
	case "status":
		msg = v.hReturn.Err.Msg
	case "error":
		msg = v.hReturn.Err.Text
	}
	if v.r.Kind == KUnary {
		switch {
		case strings.ContainsAny(msg, "\r\n"):
			return "header-status-crlf"
		case strings.IndexFunc(msg, func(r rune) bool { return (r < 0x20 && r != '\t') || r == 0x7f }) >= 0:
			return "header-status-control-chars"
		case msg != strings.TrimSpace(msg):
			return "header-status-outer-blanks"
		}
		return ""
	}
	for _, ev := range v.tlrSets {
		if ev.Seq > v.hReturn.Seq {
			continue
		}
		for _, vals := range ev.MD {
			for _, x := range vals {
				if sanitize(x) != x {
					return "trailer-unencodable-bin-value"
				}
			}
		}
	}
	if sanitize(msg) != msg {
		return "trailer-unencodable-status-message"
	}
	return ""
}

func outcomeShape(e *ErrRec) string {
	switch e.Class {
	case "nil", "EOF":
		return "got-success"
	case "status":
		return "got-status"
	case "panic":
		return "got-panic"
	}
	if strings.Contains(e.Text, "unexpected EOF") {
		return "got-unexpected-EOF"
	}
	return "got-error"
}

// C02 ------------------------------------------------------------------------

type expStatus struct {
	anyNonOK bool
	code     codes.Code
	msg      string
	anyMsg   bool
	details  []string
}

func sanitize(s string) string { return strings.ToValidUTF8(s, "�") }

// relaxHugeCodes is set while a call on the grpc-go carrier is being judged.
var relaxHugeCodes bool

// expectedFrom maps the error a handler returned to what the client must see.
func expectedFrom(h *ErrRec) expStatus {
	switch h.Class {
	case "nil":
		return expStatus{code: codes.OK}
	case "EOF":
		return expStatus{code: codes.Unknown, msg: "EOF"}
	case "status":
		if h.Code == 0 {
			return expStatus{anyNonOK: true}
		}
		if uint32(h.Code) >= 1<<31 && relaxHugeCodes {
			// the reference transport (grpc-go) cannot carry a code >= 2^31
			return expStatus{anyNonOK: true}
		}
		return expStatus{code: codes.Code(uint32(h.Code)), msg: h.Msg, details: h.Details}
	}
	switch h.Ctx {
	case "canceled":
		return expStatus{code: codes.Canceled, anyMsg: true}
	case "deadline":
		return expStatus{code: codes.DeadlineExceeded, anyMsg: true}
	}
	return expStatus{code: codes.Unknown, msg: h.Text}
}

func (e expStatus) String() string {
	if e.anyNonOK {
		return "any non-OK status"
	}
	return fmt.Sprintf("(%s,%q,%d details)", e.code, e.msg, len(e.details))
}

func (e expStatus) matches(got *ErrRec) (bool, string) {
	code, msg := got.ViaConvert()
	if e.anyNonOK {
		if code == codes.OK {
			return false, "code"
		}
		return true, ""
	}
	if code != e.code {
		return false, "code"
	}
	if e.code == codes.OK {
		return true, ""
	}
	if !e.anyMsg && sanitize(msg) != sanitize(e.msg) {
		return false, "message"
	}
	if !e.anyMsg {
		if len(got.Details) != len(e.details) {
			return false, "details"
		}
		for i := range e.details {
			if got.Details[i] != e.details[i] {
				return false, "details"
			}
		}
	}
	return true, ""
}

// responsesProduced: how many response messages the handler handed over
// successfully.
func (v *view) responsesProduced() int { return countOK(v.hSend, 0) }

func (v *view) oracleC02() {
	t := v.terminal
	if t == nil {
		return
	}
	if v.hReturn != nil {
		v.relevant("C02")
	}
	ok := okTerminal(t, v.single)
	if t.Flags["mismatch"] == "1" {
		// the caller receives into a message of another type: a response that
		// cannot be decoded into it is an error, never success
		if len(v.hSend) >= 1 && v.hSend[0].Msg != nil && v.hSend[0].Msg.Kind != 4 {
			v.s.stats.Probes["c02-mismatched-destination"]++
			b, merr := proto.Marshal(v.hSend[0].Msg.Build())
			undecodable := merr == nil && proto.Unmarshal(b, &wrapperspb.StringValue{}) != nil
			if undecodable {
				v.s.stats.Probes["c02-undecodable-response"]++
				if ok {
					v.fail("C02", "undecodable-response-reported-as-success", "the response (tag %d) cannot be decoded into the caller's message type, yet the call reports success", v.hSend[0].Msg.Tag)
				}
			}
		}
		return // the exact-status clauses assume the caller can decode what was sent
	}
	// a bare io.EOF from a unary call is never a legitimate outcome
	if t.Op == "invoke" && t.Err.IsEOF() && !v.cutBefore(t.RSeq) {
		v.fail("C02", "unary-bare-EOF", "Invoke returned a bare io.EOF")
	}
	// always: success only if the handler succeeded and everything arrived
	if ok {
		switch {
		case v.hReturn == nil || v.hReturn.Seq > t.RSeq:
			v.fail("C02", "success-before-handler-returned", "client reports success at seq %d but the handler had not returned", t.RSeq)
		case !v.hReturn.Err.IsNil():
			v.fail("C02", "success-but-handler-failed", "client reports success but the handler returned %s", v.hReturn.Err)
			if v.ctxDoneBefore(t.RSeq) {
				v.fail("C04", "success-with-missing-data", "after the context ended the client saw success although the handler returned %s", v.hReturn.Err)
			}
		}
		for _, sd := range v.hSend {
			// a response that cannot be encoded: either the handler's send
			// told it so (then what the handler returns is its business), or
			// the client must not see success
			if sd.Msg != nil && sd.Msg.Kind == 4 && v.r.Transport != TInproc && sd.Err.IsNil() {
				v.fail("C02", "success-with-unencodable-response", "client reports success although response tag %d cannot be encoded and the handler was not told", sd.Msg.Tag)
			}
		}
	}
	if v.hReturn == nil || v.hReturn.Seq > t.RSeq {
		return
	}
	if v.disturbedBefore(t.RSeq) {
		return
	}
	// undisturbed call: exact status
	if v.single && (v.responsesProduced() != 1 || len(v.hSend) != 1) {
		return // wrong number of responses: C08's business
	}

	if v.clientSideFailure() {
		return
	}
	for _, sd := range v.hSend {
		if sd.Msg != nil && sd.Msg.Kind == 4 {
			// a response that cannot be encoded: an error of any kind, or
			// (transports that never encode) intact delivery, are both right
			return
		}
	}
	exp := expectedFrom(v.hReturn.Err)
	if good, what := exp.matches(t.Err); !good {
		clause := "status-" + what + "-differs"
		if v.hReturn.Err.Class != "status" && v.hReturn.Err.Class != "nil" {
			clause += "|handler-returned-" + v.hReturn.Err.Class
			if v.hReturn.Err.Ctx != "" {
				clause += "-ctx"
			}
		}
		if what == "message" {
			clause += "|" + msgClass(exp.msg)
		}
		clause += "|" + outcomeShape(t.Err)
		if wl := v.wireLimit(); wl != "" {
			clause += "|" + wl
		}
		v.fail("C02", clause, "handler returned %s, expected client outcome %s, client got %s", v.hReturn.Err, exp, t.Err)
		if v.hReturn.Err.Ctx != "" && what == "code" {
			c4 := "handler-ctx-error-not-mapped|" + outcomeShape(t.Err)
			if wl := v.wireLimit(); wl != "" {
				c4 += "|" + wl
			}
			v.fail("C04", c4, "handler returned the bare context error %q; client must see %s but got %s", v.hReturn.Err.Text, exp.code, t.Err)
		}
	}
}

// clientSideFailure: the terminal outcome is due to something the client side
// did wrong on purpose (e.g. credentials failing), not the handler's status.
func (v *view) clientSideFailure() bool {
	if v.terminal != nil && v.terminal.Flags["mismatch"] == "1" {
		return true // the caller receives into a message type the reply may not decode into
	}
	return v.r.Creds != nil && (v.r.Creds.Fail || v.r.Creds.Secure)
}

func msgClass(m string) string {
	switch {
	case strings.ContainsAny(m, "\r\n"):
		return "crlf"
	case m != strings.TrimSpace(m):
		return "outer-blanks"
	case sanitize(m) != m:
		return "invalid-utf8"
	case strings.ContainsAny(m, "\t"):
		return "tab"
	case !isASCII(m):
		return "non-ascii"
	case strings.ContainsAny(m, ":%"):
		return "colon-percent"
	}
	return "plain"
}

func isASCII(s string) bool {
	for i := 0; i < len(s); i++ {
		if s[i] >= 0x80 {
			return false
		}
	}
	return true
}

// C03 ------------------------------------------------------------------------

func (v *view) expectedIncoming() metadata.MD {
	md := kvToMD(v.r.OutMD)
	if v.r.Creds != nil && !v.r.Creds.Fail {
		// credentials hand back a map: the last value of a key wins
		last := map[string]string{}
		for _, kv := range v.r.Creds.MD {
			last[kv.K] = string(kv.V)
		}
		cm := metadata.MD{}
		for k, val := range last {
			cm[k] = []string{val}
		}
		md = mdMerge(md, cm)
	}
	return md
}

// incomingOK checks the handler's incoming metadata against what the caller
// attached: for every key, the caller's values in their order, with the
// credential's value for that key (if any) before or after them - the property
// fixes no order between the two sources (grpc-go puts credentials first,
// metadata.Join(caller, creds) puts them last). Extra keys are ignored.
func (v *view) incomingOK(have metadata.MD) (bool, string) {
	caller := kvToMD(v.r.OutMD)
	creds := metadata.MD{}
	if v.r.Creds != nil && !v.r.Creds.Fail {
		for _, kv := range v.r.Creds.MD {
			creds[kv.K] = []string{string(kv.V)} // a map: the last value of a key wins
		}
	}
	if v.trim {
		caller, creds = trimMD(caller), trimMD(creds)
	}
	keys := map[string]bool{}
	for k := range caller {
		keys[k] = true
	}
	for k := range creds {
		keys[k] = true
	}
	var ks []string
	for k := range keys {
		ks = append(ks, k)
	}
	sort.Strings(ks)
	eq := func(a, b []string) bool {
		if len(a) != len(b) {
			return false
		}
		for i := range a {
			if a[i] != b[i] {
				return false
			}
		}
		return true
	}
	for _, k := range ks {
		c, cr, h := caller[k], creds[k], have[k]
		if len(c)+len(cr) == 0 {
			continue
		}
		a := append(append([]string{}, c...), cr...)
		b := append(append([]string{}, cr...), c...)
		if !eq(h, a) && !eq(h, b) {
			return false, fmt.Sprintf("key %q: caller attached %q, credentials %q, handler sees %q", k, c, cr, h)
		}
	}
	return true, ""
}

func (v *view) expectedHeaders() metadata.MD {
	md := metadata.MD{}
	for _, ev := range v.hdrSets {
		if ev.RSeq != 0 && ev.Err.IsNil() {
			md = mdMerge(md, ev.MD)
		}
	}
	return md
}

// trimMD: the metadata as HTTP header rules deliver it - blanks at the ends
// of (non-binary) values are not part of a header field's value.
func trimMD(md metadata.MD) metadata.MD {
	out := metadata.MD{}
	for k, vs := range md {
		bin := strings.HasSuffix(k, "-bin")
		for _, x := range vs {
			if !bin {
				x = strings.Trim(x, " \t")
			}
			out[k] = append(out[k], x)
		}
	}
	return out
}

// blankLimit: over HTTP, would the metadata be complete if blanks at the ends
// of the expected values did not count? (a limit of the HTTP wire format that
// is reported as a known finding, not hidden)
func (v *view) blankLimit(have, want metadata.MD) string {
	if v.r.Transport != THTTP {
		return ""
	}
	// per value: delivered as it is, or without the blanks at its ends
	for k, w := range want {
		h := have[k]
		if len(w) == 0 {
			continue
		}
		if len(h) != len(w) {
			return ""
		}
		for i := range w {
			if h[i] != w[i] && (strings.HasSuffix(k, "-bin") || h[i] != strings.Trim(w[i], " \t")) {
				return ""
			}
		}
	}
	return "|md-outer-blanks"
}

func (v *view) expectedTrailers() metadata.MD {
	md := metadata.MD{}
	for _, ev := range v.tlrSets {
		if ev.RSeq != 0 && ev.Err.IsNil() && (v.hReturn == nil || ev.Seq < v.hReturn.Seq) {
			md = mdMerge(md, ev.MD)
		}
	}
	return md
}

func (v *view) oracleC03() {
	// (i) request metadata reaches the handler
	if v.hStart != nil {
		if ok, why := v.incomingOK(v.hStart.MD); !ok {
			lim := ""
			if v.r.Transport == THTTP {
				v.trim = true
				if ok2, _ := v.incomingOK(v.hStart.MD); ok2 {
					lim = "|md-outer-blanks"
				}
				v.trim = false
			}
			v.fail("C03", "request-metadata"+lim, "handler's incoming metadata lacks or alters the caller's outgoing metadata: %s", why)
		}
	}
	// (ii) header-setting calls succeed before headers are sent and fail after
	sent := false
	known := len(v.r.Handler2) == 0 // with a concurrent sender the order of "set" and "sent" is not decided by the order in which the calls began
	for _, ev := range v.ev {
		if ev.Side != 'h' || ev.RSeq == 0 || !known {
			continue
		}
		hctxDone := v.ctxDoneBefore(ev.RSeq) || v.cutBefore(ev.RSeq)
		switch ev.Op {
		case "sethdr", "sendhdr":
			if len(ev.MD) == 0 && ev.Op == "sethdr" {
				continue // grpc.SetHeader short-circuits on empty metadata
			}
			if sent && ev.Err.IsNil() {
				v.fail("C03", "set-header-after-sent-succeeds", "%s at seq %d returned nil although headers had already been sent", ev.Op, ev.Seq)
			}
			if !sent && !ev.Err.IsNil() && !hctxDone {
				v.fail("C03", "set-header-before-sent-fails", "%s at seq %d failed (%s) although headers had not been sent", ev.Op, ev.Seq, ev.Err)
			}
			if ev.Op == "sendhdr" && ev.Err.IsNil() {
				sent = true
			}
			if !ev.Err.IsNil() && hctxDone {
				known = false
			}
		case "send":
			if ev.Note == "unary response" {
				continue
			}
			if ev.Err.IsNil() {
				sent = true
			} else if !sent {
				// a failed first send may or may not have taken the headers
				// with it; once they were sent they stay sent
				known = false
			}
		}
	}
	for _, ev := range v.ev {
		// metadata set by a goroutine the handler left behind, after the reply
		// has been sent: "setting headers after they were sent fails"
		if ev.Side == 'h' && ev.G == 9 && v.r.Kind == KUnary && (ev.Op == "late-sethdr" || ev.Op == "late-sendhdr" || ev.Op == "late-settlr") && ev.RSeq != 0 && ev.Err.IsNil() {
			inv := v.invoke
			if inv == nil || inv.RSeq == 0 {
				continue
			}
			if v.ctxDoneBefore(inv.RSeq) || v.cutBefore(inv.RSeq) {
				continue // the caller did not wait for the reply: the handler may have returned much later
			}
			if ev.Seq > inv.RSeq {
				v.fail("C03", "set-after-sent-succeeds|"+ev.Op, "%s by a goroutine the unary handler left behind reported success after the caller already had its reply (the metadata is lost)", ev.Op)
				continue
			}
			// between the handler's return and the reply: the library may still
			// take it - but then it must be in the reply
			if !inv.Err.IsNil() {
				continue
			}
			targets, val := inv.OptH, map[string]string{"late-sethdr": "h", "late-sendhdr": "s"}[ev.Op]
			if ev.Op == "late-settlr" {
				targets, val = inv.OptT, "t"
			}
			for i, md := range targets {
				got, found := md.Get("late"), false
				for _, x := range got {
					found = found || x == val
				}
				if !found {
					v.fail("C03", "set-after-sent-succeeds|"+ev.Op, "%s by a goroutine the unary handler left behind reported success after the handler had returned, but the successful call's option target #%d does not have it (late=%q, target holds %v): the reply had been put together; the metadata is lost", ev.Op, i, got, md)
					break
				}
			}
		}
	}
	if v.hStart == nil {
		return
	}
	expH, expT := v.expectedHeaders(), v.expectedTrailers()
	for _, ev := range v.ev {
		if ev.Side != 'c' {
			continue
		}
		for _, md := range append(append([]metadata.MD{ev.MD, ev.MD2}, ev.OptH...), ev.OptT...) {
			if _, bad := md["scribbled-key"]; bad {
				v.fail("C03", "later-mutation-of-handler-metadata-visible", "%s at seq %d shows a key the handler added to its metadata object only after handing it to the library", ev.Op, ev.Seq)
			}
		}
	}
	if len(expH)+len(expT)+len(v.expectedIncoming()) > 0 {
		v.relevant("C03")
	}
	t := v.terminal
	okT := okTerminal(t, v.single)
	// (iii) headers are observable once a response message has been received
	firstMsgSeq := 0
	for _, rv := range v.cRecv {
		if rv.RSeq != 0 && rv.Err.IsNil() && rv.GotMsg != nil {
			firstMsgSeq = rv.RSeq
			break
		}
	}
	for _, hv := range v.cHeader {
		if hv.RSeq == 0 {
			continue
		}
		after := firstMsgSeq != 0 && hv.Seq > firstMsgSeq
		afterOK := okT && t != nil && hv.Seq > t.RSeq
		undisturbed := !v.disturbedBefore(hv.RSeq)
		if !(after || afterOK || (undisturbed && hv.Err.IsNil())) {
			continue
		}
		if !hv.Err.IsNil() {
			if after && undisturbed {
				v.fail("C03", "header-call-fails-after-message", "Header() at seq %d failed (%s) although a response message had been received", hv.Seq, hv.Err)
			}
			continue
		}
		if ok, why := mdContains(hv.MD, expH); !ok {
			v.fail("C03", "headers-incomplete-via-Header"+v.blankLimit(hv.MD, expH), "Header() at seq %d (after first message: %v): %s", hv.Seq, after, why)
		}
		for i, o := range hv.OptH {
			// the call-option targets are only required to be filled by the
			// end of the call (grpc-go fills them when a stream finishes)
			if ok, why := mdContains(o, expH); !ok && afterOK {
				v.fail("C03", "headers-incomplete-via-option"+v.blankLimit(o, expH), "grpc.Header option #%d at seq %d: %s", i, hv.Seq, why)
			}
		}
	}
	if t == nil || v.hReturn == nil || v.hReturn.Seq > t.RSeq {
		return
	}
	if t.Op == "newstream" || t.Op == "send" || t.Op == "closesend" {
		return // no stream was handed to the caller
	}
	strict := okT || !v.disturbedBefore(t.RSeq)
	// after the context ended, an outcome that is the handler's own status (and
	// cannot be mistaken for the cancellation status) is "the complete real
	// result": it comes with all its metadata, or it is a mixture of the two
	realAfterCtx := false
	if !strict && v.ctxDoneBefore(t.RSeq) && !v.cutBefore(t.RSeq) && !v.hReturn.Err.IsNil() && t.Err != nil && t.Err.Class == "status" {
		exp := expectedFrom(v.hReturn.Err)
		if m, _ := exp.matches(t.Err); m && !exp.anyNonOK && !exp.anyMsg {
			c := codes.Code(t.Err.Code)
			if c != codes.Canceled && c != codes.DeadlineExceeded {
				realAfterCtx, strict = true, true
			}
		}
	}
	if !strict || v.clientSideFailure() {
		return
	}
	if t.Err != nil && t.Err.Class == "error" {
		for _, sd := range v.hSend {
			if sd.Msg != nil && sd.Msg.Kind == 4 {
				return // the response could not be copied/decoded on the caller's side: not the call's final status
			}
		}
	}
	if v.single && !okT && (v.responsesProduced() > 1 || len(v.hSend) > 1 || (v.hReturn.Err.IsNil() && (v.responsesProduced() != 1 || len(v.hSend) != 1))) {
		return // the client aborted the call over the response count
	}
	tag := "on-failure"
	if okT {
		tag = "on-success"
	}
	if wl := v.wireLimit(); wl != "" {
		tag += "|" + outcomeShape(t.Err) + "|" + wl
	}
	if realAfterCtx {
		tag += "|real-status-after-context-ended"
	}
	nfail := len(v.s.viols)
	defer func() {
		if realAfterCtx && len(v.s.viols) > nfail {
			v.fail("C04", "mixture|real-status-with-missing-metadata", "after the context ended (%s) the call returned the handler's own status %s, but not all of the headers/trailers that belong to it: neither the complete real result nor the cancellation status", v.rs.ctxCause, t.Err)
		}
	}()
	// (iv)/(v) at the final status trailers and headers are all there
	for i, o := range t.OptT {
		if ok, why := mdContains(o, expT); !ok {
			v.fail("C03", "trailers-incomplete-via-option|"+tag+v.blankLimit(o, expT), "grpc.Trailer option #%d at final status (seq %d, %s): %s", i, t.RSeq, t.Err, why)
			if v.ctxDoneBefore(t.RSeq) && okT && v.blankLimit(o, expT) == "" {
				v.fail("C04", "success-with-missing-data", "after the context ended the call reported success with trailers missing: %s", why)
			}
			break
		}
	}
	for i, o := range t.OptH {
		if ok, why := mdContains(o, expH); !ok {
			v.fail("C03", "headers-incomplete-via-option|"+tag+v.blankLimit(o, expH), "grpc.Header option #%d at final status (seq %d, %s): %s", i, t.RSeq, t.Err, why)
			if v.ctxDoneBefore(t.RSeq) && okT && v.blankLimit(o, expH) == "" {
				v.fail("C04", "success-with-missing-data", "after the context ended the call reported success with headers missing: %s", why)
			}
			break
		}
	}
	if t.Op == "recv" {
		if ok, why := mdContains(t.MD2, expT); !ok {
			v.fail("C03", "trailers-incomplete-via-Trailer|"+tag+v.blankLimit(t.MD2, expT), "Trailer() right after the final status (seq %d, %s): %s", t.RSeq, t.Err, why)
		}
	}
	for _, tv := range v.cTrailer {
		if tv.RSeq != 0 && tv.Seq > t.RSeq {
			if ok, why := mdContains(tv.MD, expT); !ok {
				v.fail("C03", "trailers-incomplete-via-Trailer|"+tag+v.blankLimit(tv.MD, expT), "Trailer() at seq %d after the final status: %s", tv.Seq, why)
			}
		}
	}
}

// C04 ------------------------------------------------------------------------

func causeCode(c string) codes.Code {
	if c == "deadline" {
		return codes.DeadlineExceeded
	}
	return codes.Canceled
}

func (v *view) oracleC04() {
	if v.ctxSeq == 0 {
		return
	}
	var evs []*Event
	evs = append(evs, v.cRecv...)
	if v.invoke != nil {
		evs = append(evs, v.invoke)
	}
	if v.newstream != nil {
		evs = append(evs, v.newstream)
	}
	if sf := v.stubFail(); sf != nil {
		evs = append(evs, sf) // what a generated server-stream stub returns
	}
	for _, hv := range v.cHeader {
		// Header() is how a caller receives the response headers
		if hv.Err != nil && !hv.Err.IsNil() {
			evs = append(evs, hv)
		}
	}
	for _, ev := range evs {
		if ev.RSeq == 0 || ev.RSeq < v.ctxSeq || ev.Err == nil {
			continue
		}
		if v.cutBefore(ev.RSeq) || ev.Flags["mismatch"] == "1" {
			continue
		}
		v.relevant("C04")
		allowed := []codes.Code{causeCode(v.rs.ctxCause)}
		if v.rs.ctxDoneSeq2 != 0 && v.rs.ctxDoneSeq2 < ev.RSeq {
			allowed = append(allowed, causeCode(v.rs.ctxCause2))
		}
		// a deadline that has passed by the time the op returns also explains DeadlineExceeded
		if !v.rs.deadline.IsZero() && ev.RT >= int64(v.rs.deadline.Sub(v.s.t0)) {
			allowed = append(allowed, codes.DeadlineExceeded)
		}
		switch ev.Err.Class {
		case "nil":
			// a real result; completeness is judged by C01/C02/C03 clauses
		case "EOF":
			if ev.Op == "invoke" {
				v.fail("C04", "bare-EOF", "after the context ended (%s at seq %d) Invoke returned a bare io.EOF", v.rs.ctxCause, v.ctxSeq)
			} else if ev.Op == "send" || ev.Op == "closesend" {
				v.fail("C04", "bare-EOF|stub-"+ev.Op, "after the context ended (%s at seq %d) the %s of a server-stream call made through generated code returned a bare io.EOF, which is all the caller of the stub gets", v.rs.ctxCause, v.ctxSeq, ev.Op)
			} else if v.single {
				// single-response stream: io.EOF from the first receive means no response
				if v.hReturn == nil || v.hReturn.Seq > ev.RSeq || !v.hReturn.Err.IsNil() {
					v.fail("C04", "bare-EOF", "after the context ended (%s) the receive returned a bare io.EOF instead of a status", v.rs.ctxCause)
				}
			} else if ev == v.terminal && (v.hReturn == nil || v.hReturn.Seq > ev.RSeq) {
				v.fail("C04", "bare-EOF", "after the context ended (%s at seq %d) the receive at seq %d returned io.EOF although the handler had not finished", v.rs.ctxCause, v.ctxSeq, ev.Seq)
			}
		case "status":
			good := false
			for _, c := range allowed {
				if codes.Code(ev.Err.Code) == c {
					good = true
				}
			}
			if !good && v.hReturn != nil && v.hReturn.Seq < ev.RSeq {
				if m, _ := expectedFrom(v.hReturn.Err).matches(ev.Err); m {
					good = true // the handler's real final status
				}
				if expectedFrom(v.hReturn.Err).anyNonOK {
					good = true
				}
			}
			if !good && v.single && ((v.hReturn != nil && v.hReturn.Err.IsNil() && v.responsesProduced() != 1) || v.responsesProduced() >= 2) {
				good = true // the real outcome: wrong number of responses (C08)
			}
			if !good && v.single && codes.Code(ev.Err.Code) == codes.Internal {
				// a second response whose send had begun before this receive
				// returned may have been handed over although the cancellation
				// made the handler's SendMsg itself report the context error:
				// "too many responses" is then the real result of the call
				// (fabricated messages are C01's business)
				began := 0
				for _, sd := range v.hSend {
					if sd.Seq < ev.RSeq {
						began++
					}
				}
				if began >= 2 {
					good = true
				}
			}
			if !good && ev != v.terminal && v.terminal != nil && v.terminal.RSeq < ev.RSeq {
				// repeated receive after the end: same as the terminal outcome
				if ev.Err.String() == v.terminal.Err.String() {
					good = true
				}
			}
			if !good {
				v.fail("C04", "wrong-code|"+v.rs.ctxCause+"|got-"+codes.Code(ev.Err.Code).String(), "context ended (%s at seq %d); %s at seq %d..%d returned %s, expected code %v or the handler's real result", v.rs.ctxCause, v.ctxSeq, ev.Op, ev.Seq, ev.RSeq, ev.Err, allowed)
			}
		default:
			if ev.Err.Class == "panic" {
				continue
			}
			clause := "non-status-error|" + ev.Op + "|" + errShape(ev.Err)
			if wl := v.wireLimit(); wl != "" && v.hReturn.Seq < ev.RSeq {
				clause += "|" + wl
			}
			v.fail("C04", clause, "context ended (%s at seq %d); %s at seq %d..%d returned the non-status error %s", v.rs.ctxCause, v.ctxSeq, ev.Op, ev.Seq, ev.RSeq, ev.Err)
		}
	}
	// the handler never saw the cancellation
	for _, ev := range v.ev {
		if ev.Side == 'h' && ev.Op == "waitctx" && ev.Note == "NEVER-CANCELLED" && (v.rs.ctxCause == "cancel" || v.rs.ctxCause == "deadline" || v.rs.ctxCause == "harness") {
			clause := "handler-ctx-never-cancelled"
			if v.r.Transport == THTTP && v.requestBodyUnread() {
				// net/http's HTTP/1 server notices a closed connection only once
				// the request body has been read to its end, so a *cancel* does
				// not reach such a handler (a known finding, see DESIGN.md); a
				// *deadline* does, through the propagated GRPC-Timeout
				clause += "|request-body-unread|" + v.rs.ctxCause
			}
			v.fail("C04", clause, "the caller's context ended (%s at seq %d) but the handler's context was still not done when the run was torn down", v.rs.ctxCause, v.ctxSeq)
		}
	}
}

// requestBodyUnread: the handler had not read the request stream to its end.
func (v *view) requestBodyUnread() bool {
	if v.r.Kind == KUnary {
		return false
	}
	for _, rv := range v.hRecv {
		if rv.RSeq != 0 && !rv.Err.IsNil() {
			return false
		}
	}
	return true
}

func errShape(e *ErrRec) string {
	t := e.Text
	switch {
	case e.Ctx == "canceled":
		return "context.Canceled"
	case e.Ctx == "deadline":
		return "context.DeadlineExceeded"
	case strings.Contains(t, "EOF"):
		return "EOF-like"
	}
	f := strings.Fields(t)
	if len(f) > 3 {
		f = f[:3]
	}
	return strings.Join(f, "-")
}

// C05 ------------------------------------------------------------------------

func (v *view) oracleC05() {
	if v.hReturn != nil || v.ctxSeq != 0 {
		v.relevant("C05")
	}
	if v.hReturn == nil {
		return
	}
	// after the handler has finished, sends return nil or io.EOF
	for _, sd := range v.cSend {
		if sd.RSeq == 0 || sd.Seq < v.hReturn.RSeq {
			continue
		}
		if v.closesend != nil && v.closesend.Seq < sd.RSeq {
			continue // sending after (or while) closing one's own side is a usage error
		}
		if v.disturbedBefore(sd.RSeq) {
			continue
		}
		if sd.Msg != nil && sd.Msg.Kind == 4 {
			continue
		}
		if !sd.Err.IsNil() && !sd.Err.IsEOF() {
			v.fail("C05", "send-after-handler-finished|"+errShape(sd.Err), "handler returned at seq %d; client send at seq %d returned %s (expected nil or io.EOF)", v.hReturn.RSeq, sd.Seq, sd.Err)
		}
	}
	// receives after the terminal outcome repeat it
	if v.terminal != nil && v.terminal.Op == "recv" && (!v.single || (v.terminal.Err != nil && !v.terminal.Err.IsNil() && v.terminal.Flags["mismatch"] != "1")) {
		for _, rv := range v.cRecv {
			if rv.RSeq == 0 || rv.Seq <= v.terminal.RSeq {
				continue
			}
			if v.disturbedBefore(rv.RSeq) {
				// a context that has ended may turn up as the outcome of any
				// receive, before or after the real final status
				continue
			}
			if rv.Err.String() != v.terminal.Err.String() {
				v.fail("C05", "recv-after-end-differs", "final status was %s at seq %d, a later receive at seq %d returned %s", v.terminal.Err, v.terminal.RSeq, rv.Seq, rv.Err)
			}
		}
	}
}

// C06 ------------------------------------------------------------------------

func (v *view) oracleC06() {
	if v.r.Transport != TInproc {
		return
	}
	for _, ev := range v.ev {
		if ev.obj != nil {
			v.relevant("C06")
		}
		if strings.HasPrefix(ev.Note, "ALIAS:") {
			v.fail("C06", "shared-memory|"+string(ev.Side)+"-"+ev.Op, "%c.%s at seq %d: the received message shares memory with the sender's object: %s", ev.Side, ev.Op, ev.RSeq, ev.Note[6:])
		}
		if ev.Op == "recheck" && strings.HasPrefix(ev.Note, "MODIFIED") {
			v.fail("C06", "received-message-changed-later|"+string(ev.Side), "%c: %s", ev.Side, ev.Note)
		}
	}
}

// C08 ------------------------------------------------------------------------

func (v *view) oracleC08() {
	if !v.single || v.terminal == nil || v.terminal.Op == "newstream" {
		return
	}
	t := v.terminal
	if t.Flags["mismatch"] == "1" {
		return
	}
	v.relevant("C08")
	produced := len(v.hSend) // attempts, in order
	if t.Err != nil && t.Err.Class == "panic" && produced != 1 {
		v.fail("C08", "panic-instead-of-error|"+countWord(produced), "the handler sent %d responses; the caller's %s panicked instead of reporting an error: %s", produced, t.Op, t.Err.Text)
		return
	}
	okN := v.responsesProduced()
	if t.Err.IsNil() {
		v.s.stats.Probes["c08-single-success"]++
		for _, sd := range v.hSend {
			// a response that cannot be put on the wire is no response: unless the
			// handler was told so (and then did something about it), not success
			if sd.Msg != nil && sd.Msg.Kind == 4 && v.r.Transport != TInproc && sd.Err.IsNil() && v.mayHaveProduced() == 1 {
				v.fail("C08", "success-although-response-unencodable", "caller got success although the handler's only response (tag %d) cannot be encoded and the handler was not told", sd.Msg.Tag)
			}
		}
		switch {
		case v.hReturn == nil || v.hReturn.Seq > t.RSeq:
			// covered by C02
		case okN != 1 || v.mayHaveProduced() != 1:
			v.fail("C08", fmt.Sprintf("success-with-%s-responses", countWord(produced)), "caller got a response and success although the handler sent %d responses (%d handed over)", produced, okN)
		case !v.hReturn.Err.IsNil():
			v.fail("C08", "success-although-handler-failed", "caller got a response and success although the handler returned %s", v.hReturn.Err)
		}
		return
	}
	if v.hReturn != nil && v.hReturn.Seq < t.RSeq && v.hReturn.Err.IsNil() && produced != 1 && !v.disturbedBefore(t.RSeq) {
		v.s.stats.Probes["c08-wrong-count-reported"]++
		// must be an error; io.EOF from a stream receive counts as one (grpc-go does the same)
		if t.Op == "invoke" && t.Err.IsEOF() {
			v.fail("C08", "bare-EOF", "handler produced %d responses; Invoke returned a bare io.EOF", produced)
		}
	}
}

// mayHaveProduced: response sends that returned nil or have not returned (a
// send whose error told the handler that nothing was handed over does not count).
func (v *view) mayHaveProduced() int {
	n := 0
	for _, sd := range v.hSend {
		if sd.RSeq == 0 || sd.Err.IsNil() {
			n++
		}
	}
	return n
}

func countWord(n int) string {
	switch n {
	case 0:
		return "zero"
	case 1:
		return "one"
	}
	return "many"
}

// C10 ------------------------------------------------------------------------

func (v *view) oracleC10() {
	if v.r.Transport != TInproc || v.hStart == nil {
		return
	}
	f := v.hStart.Flags
	v.relevant("C10")
	if f["caller-values-visible"] != "" {
		v.fail("C10", "caller-values-visible", "%s caller context value(s) are visible in the handler's context", f["caller-values-visible"])
	}
	if f["incoming-md-absent"] != "" {
		v.fail("C10", "incoming-metadata-absent", "the handler's context carries no incoming metadata at all (metadata.FromIncomingContext reports false); over a network it always does")
	}
	if f["outgoing-md-visible"] != "" {
		v.fail("C10", "outgoing-md-visible", "the caller's outgoing metadata is visible as outgoing metadata in the handler's context")
	}
	if f["peer"] != "inproc/0|inproc" {
		v.fail("C10", "peer", "handler's peer is %q, expected the in-process peer", f["peer"])
	}
	want := v.r.Call
	if !strings.HasPrefix(want, "/") {
		want = "/" + want
	}
	if f["method"] != want {
		v.fail("C10", "transport-stream-method", "handler's ServerTransportStream method is %q, expected %q", f["method"], want)
	}
	if v.rs.nestedIn != nil && v.rs.deadline.IsZero() {
		// deadline is inherited from the enclosing handler's context
	} else if v.rs.deadline.IsZero() != (f["deadline"] == "") {
		v.fail("C10", "deadline-presence", "caller has deadline: %v, handler sees deadline %q", !v.rs.deadline.IsZero(), f["deadline"])
	} else if !v.rs.deadline.IsZero() && f["deadline"] != fmt.Sprint(int64(v.rs.deadline.Sub(v.s.t0))) {
		v.fail("C10", "deadline-value", "caller deadline %d, handler deadline %s", int64(v.rs.deadline.Sub(v.s.t0)), f["deadline"])
	}
	if f["clientctx"] != "ok" {
		v.fail("C10", "client-context-accessor", "ClientContext(handler ctx) is %s", f["clientctx"])
	}
	if leak := f["clientctx-md-has-creds"]; leak != "" {
		v.fail("C10", "client-context-not-the-callers", "ClientContext(handler ctx) has outgoing metadata %s that the caller's context does not have (the per-RPC credentials supplied it)", leak)
	}
	exp := v.expectedIncoming()
	if ok, why := v.incomingOK(v.hStart.MD); !ok {
		v.fail("C10", "incoming-metadata", "%s", why)
	}
	for k := range v.hStart.MD {
		if _, ok := exp[k]; !ok {
			v.fail("C10", "incoming-metadata-extra", "handler sees metadata key %q the caller did not send", k)
		}
	}
}
