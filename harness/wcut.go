package sim

import (
	"os"
	"bytes"
	"encoding/binary"
	"fmt"
	"runtime"
	"strconv"
	"strings"
	"testing"
	"time"
)

// Profile "wcut": connection loss at every byte offset, on the real net/http
// path. For each generated fault-free single-RPC HTTP program the uncut
// baseline run is recorded first (how many bytes each direction carried, and
// where in the reply's byte stream the final trailer frame ends); then the same
// program and schedule are re-run once per byte offset of the reply (from the
// end of the HTTP header block to the last byte) and of the request, with a
// clean (FIN) and an abrupt (RST) ending. For a given program and schedule
// that is a complete enumeration of cut positions.
//
// Oracles: all the standard ones (prefix/intact delivery, success only if the
// handler succeeded and everything arrived, termination, no leak), plus the
// wire-level clause of C07: a reply cut before the end of its final trailer
// frame (unary: before the end of its body) is never reported as success.

func init() {
	specialWorkers["wcut"] = workerWCut
	extraOracles = append(extraOracles, oracleWireCut)
}

func wcutBaseKnobs() knobs {
	k := defaultKnobs()
	k.transports = []string{THTTP}
	k.maxRPC = 1
	k.pCancel, k.pDeadline, k.pAdvance, k.pCut, k.pBig, k.pSleep, k.pWaitCtx = 0, 0, 0, 0, 0, 0, 0
	k.pErr, k.pPlainErr, k.pDeviate, k.pMD, k.pCreds, k.pUnenc = 0.35, 0.05, 0.1, 0.5, 0, 0
	k.maxMsgs = 3
	return k
}

// replyLayout is the reference reading of one recorded HTTP/1.1 reply: where
// the header block ends and where (in wire offsets) the gRPC payload ends -
// the last byte of the final trailer frame of a streaming reply, or the last
// byte of a unary body.
type replyLayout struct {
	hdrEnd     int
	trailerEnd int // 0 = not found (the recorded reply carries no complete trailer frame)
	streaming  bool
}

func parseReply(wire []byte) (replyLayout, bool) {
	var lay replyLayout
	i := bytes.Index(wire, []byte("\r\n\r\n"))
	if i < 0 {
		return lay, false
	}
	lay.hdrEnd = i + 4
	head := strings.ToLower(string(wire[:i]))
	lay.streaming = strings.Contains(head, "content-type: application/x-httpgrpc-proto+v1")
	var body []byte
	var off []int // wire offset of each body byte
	switch {
	case strings.Contains(head, "transfer-encoding: chunked"):
		pos := lay.hdrEnd
		for {
			j := bytes.Index(wire[pos:], []byte("\r\n"))
			if j < 0 {
				break
			}
			szLine := string(wire[pos : pos+j])
			if k := strings.IndexByte(szLine, ';'); k >= 0 {
				szLine = szLine[:k]
			}
			sz, err := strconv.ParseInt(strings.TrimSpace(szLine), 16, 32)
			if err != nil || sz < 0 {
				return lay, false
			}
			pos += j + 2
			if sz == 0 {
				break
			}
			if pos+int(sz) > len(wire) {
				sz = int64(len(wire) - pos)
			}
			for k := 0; k < int(sz); k++ {
				body = append(body, wire[pos+k])
				off = append(off, pos+k)
			}
			pos += int(sz) + 2
			if pos > len(wire) {
				break
			}
		}
	default:
		for k := lay.hdrEnd; k < len(wire); k++ {
			body = append(body, wire[k])
			off = append(off, k)
		}
	}
	if !lay.streaming {
		if len(off) > 0 {
			lay.trailerEnd = off[len(off)-1] + 1
		} else {
			lay.trailerEnd = lay.hdrEnd
		}
		return lay, true
	}
	// walk the frames
	b := 0
	for b+4 <= len(body) {
		n := int32(binary.BigEndian.Uint32(body[b : b+4]))
		if n < 0 {
			end := b + 4 + int(-int64(n))
			if end <= len(body) && end > 0 {
				lay.trailerEnd = off[end-1] + 1
			}
			return lay, true
		}
		b += 4 + int(n)
	}
	return lay, true
}

func workerWCut(t *testing.T, out *WorkerOut) {
	start := time.Now()
	k := wcutBaseKnobs()
	progs, cases, enumerated := 0, 0, 0
	shapes := map[string]bool{}
	record := func(res *Result, seed int64) {
		out.Runs++
		out.Steps += int64(res.Stats.Steps)
		out.VirtualNs += res.Stats.VirtualNs
		for k, v := range res.Stats.Faults {
			out.Faults[k] += v
		}
		for k, v := range res.Stats.Probes {
			out.Probes[k] += v
		}
		if res.Stats.HitCap {
			out.Capped++
		}
		out.Shapes[res.Shape]++
		if *flagHashes {
			if out.Hashes == nil {
				out.Hashes = map[string]string{}
			}
			out.Hashes[fmt.Sprint(out.Runs)] = res.TraceHash
		}
		if nontrivial(*flagProp, res) || res.Stats.Faults["wirecut-clean"]+res.Stats.Faults["wirecut-reset"] > 0 {
			out.NonTriv++
			shapes[res.Shape] = true
		}
		if res.Fatal != "" {
			out.Fatal = append(out.Fatal, fmt.Sprintf("seed %d: %s", seed, res.Fatal))
		}
		mine := false
		for _, v := range res.Viols {
			if *flagProp == "" || v.Prop == *flagProp {
				mine = true
			} else {
				out.Notes[v.Sig]++
			}
		}
		if mine && keepFailure(len(out.Failures), res) {
			res.HistText = res.histText()
			out.Failures = append(out.Failures, res)
		}
		if len(out.Samples) < 1 && out.Runs%157 == 11 {
			res.HistText = res.histText()
			out.Samples = append(out.Samples, res)
		}
	}
	budgetLeft := func() bool {
		if *flagBudget > 0 {
			return time.Since(start) <= *flagBudget
		}
		return enumerated < 2 && progs < 50
	}
	for pi := 0; budgetLeft(); pi++ {
		seed := *flagSeed + int64(pi)
		g := &gen{rng: newRand(seed ^ 0x5DEECE66D), k: k}
		base := g.program("wcut", seed)
		base.Faults = nil
		for _, r := range base.RPCs {
			// keep the recorded reply within the wire record
			for _, ops := range [][]Op{r.Client, r.Client2, r.Handler} {
				for i := range ops {
					if ops[i].Msg != nil && ops[i].Msg.Size > 200 {
						ops[i].Msg.Size = 200
					}
				}
			}
		}
		tapeSeed := seed*1000003 + 7
		var lay replyLayout
		var s2cTotal, c2sTotal int
		wireProbe = func(s *Sim) {
			if len(s.conns) == 0 {
				return
			}
			p := s.conns[0]
			p.s2c.mu.Lock()
			s2cTotal = p.s2c.total
			rec := append([]byte(nil), p.s2c.wrote...)
			p.s2c.mu.Unlock()
			p.c2s.mu.Lock()
			c2sTotal = p.c2s.total
			p.c2s.mu.Unlock()
			lay, _ = parseReply(rec)
		}
		res := RunOne(t, cloneProgram(base), NewSearchTape(tapeSeed), false)
		wireProbe = nil
		record(res, seed)
		runtime.GC()
		progs++
		if os.Getenv("WCUT_DEBUG") != "" { fmt.Printf("wcut prog seed=%d fatal=%q s2c=%d c2s=%d viols=%d hdrEnd=%d trailerEnd=%d\n", seed, res.Fatal, s2cTotal, c2sTotal, len(res.Viols), lay.hdrEnd, lay.trailerEnd) }
		if res.Fatal != "" || s2cTotal == 0 || s2cTotal > recLimit || len(res.Viols) > 0 && hasProp(res.Viols, *flagProp) {
			continue
		}
		try := func(dir string, off int, reset bool, total int) {
			p := cloneProgram(base)
			p.Cfg.WireCut = &WireCut{Dir: dir, Conn: 0, Offset: off, Reset: reset, Total: total}
			if dir == "s2c" {
				p.Cfg.WireCut.TrailerEnd = lay.trailerEnd
			}
			r := RunOne(t, p, NewSearchTape(tapeSeed), false)
			record(r, seed)
			cases++
			runtime.GC()
		}
		enumerated++
		inProg := func() bool { return *flagBudget == 0 || budgetLeft() }
		// the reply: every offset from just before the end of the header block to the last byte
		from := lay.hdrEnd - 2
		if from < 0 {
			from = 0
		}
		for off := from; off <= s2cTotal && inProg(); off++ {
			for _, reset := range []bool{false, true} {
				try("s2c", off, reset, s2cTotal)
			}
		}
		// a few cuts inside the reply's header block
		for _, off := range []int{0, 1, 17, lay.hdrEnd / 2} {
			if off < from && inProg() {
				try("s2c", off, false, s2cTotal)
			}
		}
		// the request: every offset of the last 160 bytes (the body) and a sample of the head
		rfrom := c2sTotal - 160
		if rfrom < 0 {
			rfrom = 0
		}
		for off := rfrom; off <= c2sTotal && inProg(); off++ {
			for _, reset := range []bool{false, true} {
				try("c2s", off, reset, c2sTotal)
			}
		}
	}
	out.Extra = map[string]any{
		"wcut_enumeration":            "for each generated single-RPC HTTP program: every cut offset of the reply from the end of its HTTP header block to its last byte and of the last 160 bytes of the request, each with a clean (FIN) and an abrupt (RST) ending, under the baseline's schedule tape; programs are drawn per worker until the budget ends",
		"wcut_programs_this_worker":   progs,
		"wcut_cut_cases_this_worker":  cases,
		"exhaustive_part":             true,
	}
	for k := range shapes {
		out.NTShapes = append(out.NTShapes, k)
	}
}

func hasProp(vs []Violation, prop string) bool {
	for _, v := range vs {
		if v.Prop == prop {
			return true
		}
	}
	return false
}

// wireProbe, when set, is called at the end of a run (before teardown) so the
// enumeration worker can read the wire record of the baseline run.
var wireProbe func(s *Sim)

// oracleWireCut: the wire-level clause of C07 on the real net/http path.
func oracleWireCut(s *Sim) {
	wc := s.prog.Cfg.WireCut
	if wc == nil || wc.Dir != "s2c" {
		return
	}
	fired := s.stats.Faults["wirecut-clean"]+s.stats.Faults["wirecut-reset"] > 0
	if !fired {
		return
	}
	for _, v := range s.views() {
		if v.r.Transport != THTTP || v.terminal == nil {
			continue
		}
		s.stats.Probes["C07-relevant"]++
		if wc.TrailerEnd == 0 || wc.Offset >= wc.TrailerEnd {
			continue
		}
		if okTerminal(v.terminal, v.single) {
			ending := "clean"
			if wc.Reset {
				ending = "abrupt"
			}
			where := "before-trailer-end"
			v.fail("C07", "truncation-reported-as-success|real-path|"+ending+"|"+where,
				"the connection broke (%s) after %d reply bytes; the reply's final trailer frame (unary: body) ends at byte %d of %d, yet the client reports success (%s)", ending, wc.Offset, wc.TrailerEnd, wc.Total, v.terminal.Err)
			v.fail("C02", "truncation-reported-as-success|real-path|"+ending,
				"the connection broke (%s) after %d of %d reply bytes, before the final status had arrived completely, yet the client reports success", ending, wc.Offset, wc.Total)
		}
	}
}
