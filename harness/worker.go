package sim

import (
	"encoding/json"
	"flag"
	"fmt"
	"os"
	"runtime"
	"runtime/debug"
	"sort"
	"testing"
	"time"
)

var (
	flagProfile = flag.String("profile", "core", "generator/oracle profile")
	flagSeed    = flag.Int64("seed", 1, "first run seed")
	flagRuns    = flag.Int("runs", 1, "number of runs (consecutive seeds)")
	flagStride  = flag.Int64("stride", 1, "seed stride")
	flagOut     = flag.String("out", "", "result file (JSON)")
	flagTrace   = flag.Bool("trace", false, "print trace of each run")
	flagReplay  = flag.String("replay", "", "replay file")
	flagBudget  = flag.Duration("budget", 0, "wall-clock budget; stop starting new runs after it")
	flagHashes  = flag.Bool("hashes", false, "print seed and trace hash per run")
	flagProp    = flag.String("prop", "", "property whose violations count (others are notes)")
	flagMaxViol = flag.Int("maxviol", 20, "stop after this many violating runs")
	flagTier    = flag.String("tier", "quick", "quick or thorough")
	flagWIdx    = flag.Int("widx", 0, "index of this worker among the workers of its profile")
	flagWN      = flag.Int("wn", 1, "number of workers of this profile")
	flagShrink  = flag.String("shrink", "", "replay file to minimise")
	flagShrinkO = flag.String("shrinkout", "", "where to write the minimised replay file")
	flagShrinkB = flag.Duration("shrinkbudget", 30*time.Second, "wall-clock budget for minimisation")
	flagTapes   = flag.Int("tapes", 0, "with -replay: ignore the file's tape and run its program under this many seeded schedules, reporting every violation signature seen")
)

// WorkerOut is what one worker process reports.
type WorkerOut struct {
	Profile   string            `json:"profile"`
	Runs      int               `json:"runs"`
	WallS     float64           `json:"wall_s"`
	Steps     int64             `json:"steps"`
	VirtualNs int64             `json:"virtual_ns"`
	Faults    map[string]int    `json:"faults"`
	Probes    map[string]int    `json:"probes"`
	Shapes    map[string]int    `json:"-"`
	ShapeList []string          `json:"shapes"`
	NonTriv   int               `json:"nontrivial_runs"`
	NTShapes  []string          `json:"nontrivial_shapes"`
	Extra     map[string]any    `json:"extra,omitempty"`
	Capped    int               `json:"hit_step_cap"`
	Fatal     []string          `json:"fatal,omitempty"`
	Failures  []*Result         `json:"failures,omitempty"`
	Notes     map[string]int    `json:"notes,omitempty"`
	Samples   []*Result         `json:"samples,omitempty"`
	Hashes    map[string]string `json:"hashes,omitempty"`
}

func WorkerMain(t *testing.T) {
	// one simulated run is single-threaded by construction: the value is
	// pinned here, not left to the environment
	runtime.GOMAXPROCS(1)
	debug.SetGCPercent(-1)
	if *flagShrink != "" {
		shrinkMain(t, *flagShrink, *flagShrinkO, *flagShrinkB)
		return
	}
	if *flagReplay != "" {
		replayMain(t)
		return
	}
	out := &WorkerOut{Profile: *flagProfile, Faults: map[string]int{}, Probes: map[string]int{}, Shapes: map[string]int{}, Notes: map[string]int{}}
	if *flagHashes {
		out.Hashes = map[string]string{}
	}
	start := time.Now()
	ntShapes := map[string]bool{}
	if f, ok := specialWorkers[*flagProfile]; ok {
		f(t, out)
		*flagRuns = 0
	}
	if cap, ok := profileRunCap[*flagProfile]; ok && *flagRuns > cap {
		*flagRuns = cap
	}
	for i := 0; i < *flagRuns; i++ {
		if *flagBudget > 0 && time.Since(start) > *flagBudget {
			break
		}
		seed := *flagSeed + int64(i)**flagStride
		prog := Generate(*flagProfile, seed)
		res := RunOne(t, prog, NewSearchTape(seed*1000003+7), *flagTrace)
		out.Runs++
		out.Steps += int64(res.Stats.Steps)
		out.VirtualNs += res.Stats.VirtualNs
		for k, v := range res.Stats.Faults {
			out.Faults[k] += v
		}
		for k, v := range res.Stats.Probes {
			out.Probes[k] += v
		}
		if res.Stats.HitCap {
			out.Capped++
		}
		out.Shapes[res.Shape]++
		if nontrivial(*flagProp, res) {
			out.NonTriv++
			ntShapes[res.Shape] = true
		}
		if *flagHashes {
			out.Hashes[fmt.Sprint(seed)] = res.TraceHash
		}
		if *flagTrace {
			for _, l := range res.Trace {
				fmt.Println(l)
			}
			for _, v := range res.Viols {
				fmt.Printf("VIOL %s %s\n     %s\n", v.Prop, v.Sig, v.Text)
			}
		}
		if res.Fatal != "" {
			out.Fatal = append(out.Fatal, fmt.Sprintf("seed %d: %s", seed, res.Fatal))
		}
		mine := false
		for _, v := range res.Viols {
			if *flagProp == "" || v.Prop == *flagProp {
				mine = true
			} else {
				out.Notes[v.Sig]++
			}
		}
		if mine && len(out.Failures) < *flagMaxViol {
			res.HistText = res.histText()
			out.Failures = append(out.Failures, res)
		}
		if len(out.Samples) < 2 && i%97 == 3 {
			res.HistText = res.histText()
			out.Samples = append(out.Samples, res)
		}
		runtime.GC()
	}
	out.WallS = time.Since(start).Seconds()
	for k := range out.Shapes {
		out.ShapeList = append(out.ShapeList, k)
	}
	sort.Strings(out.ShapeList)
	for k := range ntShapes {
		out.NTShapes = append(out.NTShapes, k)
	}
	sort.Strings(out.NTShapes)
	b, _ := json.Marshal(out)
	if *flagOut != "" {
		if err := os.WriteFile(*flagOut, b, 0o644); err != nil {
			t.Fatal(err)
		}
	} else if !*flagTrace {
		fmt.Println(string(b))
	}
}

// nontrivial: the property's relevance probe fired in this run.
func nontrivial(prop string, res *Result) bool {
	if prop == "" {
		return len(res.Hist) > 0
	}
	return res.Stats.Probes[prop+"-relevant"] > 0
}

// profileRunCap bounds the number of runs of profiles that do not fill a time
// budget (real-time sub-checks).
var profileRunCap = map[string]int{"c04gc": 24}

// specialWorkers are profiles that are not "generate a program, run it":
// complete enumerations and the like. They fill the WorkerOut themselves.
var specialWorkers = map[string]func(t *testing.T, out *WorkerOut){}

// ReplayFile is the on-disk form of a violation.
type ReplayFile struct {
	Property  string     `json:"property"`
	Signature string     `json:"signature"`
	Text      string     `json:"violation"`
	Seed      int64      `json:"seed"`
	Program   *Program   `json:"program"`
	Tape      []int      `json:"tape"`
	Trace     []string   `json:"trace,omitempty"`
	History   []string   `json:"history,omitempty"`
	TreeHash  string     `json:"tree_hash,omitempty"`
}

func replayMain(t *testing.T) {
	b, err := os.ReadFile(*flagReplay)
	if err != nil {
		t.Fatal(err)
	}
	var rf ReplayFile
	if err := json.Unmarshal(b, &rf); err != nil {
		t.Fatal(err)
	}
	if *flagTapes > 0 {
		seen := map[string]int{}
		first := map[string]int{}
		for i := 0; i < *flagTapes; i++ {
			b2, _ := json.Marshal(rf.Program)
			var p2 Program
			json.Unmarshal(b2, &p2)
			p2.Cfg.Policy = i % 3
			p2.Seed = int64(i + 1)
			r := RunOne(t, &p2, NewSearchTape(int64(i)*7919+1), false)
			for _, v := range r.Viols {
				if seen[v.Sig] == 0 {
					first[v.Sig] = i
					fmt.Printf("tape %d: VIOL %s %s\n     %s\n", i, v.Prop, v.Sig, v.Text)
				}
				seen[v.Sig]++
			}
			if r.Fatal != "" {
				fmt.Println("FATAL", r.Fatal)
			}
			runtime.GC()
		}
		fmt.Printf("tapes=%d signatures=%v\n", *flagTapes, seen)
		return
	}
	res := RunOne(t, rf.Program, NewReplayTape(rf.Tape), true)
	res.HistText = res.histText()
	if *flagTrace {
		for _, l := range res.Trace {
			fmt.Println(l)
		}
	}
	repro := false
	for _, v := range res.Viols {
		fmt.Printf("VIOL %s %s\n     %s\n", v.Prop, v.Sig, v.Text)
		if v.Sig == rf.Signature {
			repro = true
		}
	}
	if res.Fatal != "" {
		fmt.Println("FATAL", res.Fatal)
	}
	if repro {
		fmt.Printf("REPRODUCED property=%s signature=%s\n", rf.Property, rf.Signature)
	} else {
		fmt.Printf("NOT-REPRODUCED property=%s signature=%s\n", rf.Property, rf.Signature)
	}
	out, _ := json.Marshal(res)
	if *flagOut != "" {
		os.WriteFile(*flagOut, out, 0o644)
	}
}
