package sim

import (
	"strings"
	"encoding/json"
	"flag"
	"fmt"
	"os"
	"runtime"
	"runtime/debug"
	"sort"
	"testing"
	"time"
)

var (
	flagProfile = flag.String("profile", "core", "generator/oracle profile")
	flagSeed    = flag.Int64("seed", 1, "first run seed")
	flagRuns    = flag.Int("runs", 1, "number of runs (consecutive seeds)")
	flagStride  = flag.Int64("stride", 1, "seed stride")
	flagOut     = flag.String("out", "", "result file (JSON)")
	flagTrace   = flag.Bool("trace", false, "print trace of each run")
	flagReplay  = flag.String("replay", "", "replay file")
	flagBudget  = flag.Duration("budget", 0, "wall-clock budget; stop starting new runs after it")
	flagHashes  = flag.Bool("hashes", false, "print seed and trace hash per run")
	flagProp    = flag.String("prop", "", "property whose violations count (others are notes)")
	flagMaxViol = flag.Int("maxviol", 1500, "record at most this many violating runs (and at most maxPerSig per violation signature)")
	flagTier    = flag.String("tier", "quick", "quick or thorough")
	flagWIdx    = flag.Int("widx", 0, "index of this worker among the workers of its profile")
	flagWN      = flag.Int("wn", 1, "number of workers of this profile")
	flagShrink  = flag.String("shrink", "", "replay file to minimise")
	flagShrinkO = flag.String("shrinkout", "", "where to write the minimised replay file")
	flagShrinkB = flag.Duration("shrinkbudget", 30*time.Second, "wall-clock budget for minimisation")
	flagTapes   = flag.Int("tapes", 0, "with -replay: ignore the file's tape and run its program under this many seeded schedules, reporting every violation signature seen")
)

// WorkerOut is what one worker process reports.
type WorkerOut struct {
	Profile   string            `json:"profile"`
	Runs      int               `json:"runs"`
	WallS     float64           `json:"wall_s"`
	Steps     int64             `json:"steps"`
	VirtualNs int64             `json:"virtual_ns"`
	Faults    map[string]int    `json:"faults"`
	Probes    map[string]int    `json:"probes"`
	Shapes    map[string]int    `json:"-"`
	ShapeList []string          `json:"shapes"`
	NonTriv   int               `json:"nontrivial_runs"`
	NTShapes  []string          `json:"nontrivial_shapes"`
	Extra     map[string]any    `json:"extra,omitempty"`
	Capped    int               `json:"hit_step_cap"`
	Fatal     []string          `json:"fatal,omitempty"`
	Failures  []*Result         `json:"failures,omitempty"`
	Notes     map[string]int    `json:"notes,omitempty"`
	Samples   []*Result         `json:"samples,omitempty"`
	Hashes    map[string]string `json:"hashes,omitempty"`
}

func WorkerMain(t *testing.T) {
	// one simulated run is single-threaded by construction: the value is
	// pinned here, not left to the environment
	runtime.GOMAXPROCS(1)
	debug.SetGCPercent(-1)
	if *flagShrink != "" {
		shrinkMain(t, *flagShrink, *flagShrinkO, *flagShrinkB)
		return
	}
	if *flagReplay != "" {
		replayMain(t)
		return
	}
	out := &WorkerOut{Profile: *flagProfile, Faults: map[string]int{}, Probes: map[string]int{}, Shapes: map[string]int{}, Notes: map[string]int{}}
	wstart := time.Now()
	hangHandler = func(prog *Program, tapeSeed, tapeFork int64, sig, text string, library bool) {
		// the run never ended: report what there is and leave
		hres := &Result{Seed: prog.Seed, Prog: prog, Shape: "hang"}
		hres.Stats.Faults, hres.Stats.Probes = map[string]int{}, map[string]int{}
		if library {
			hres.Viols = []Violation{{Prop: "C05", Sig: sig, Text: text, RPC: -1}}
			hres.TapeSeed, hres.TapeFork = tapeSeed, tapeFork
			out.Failures = append(out.Failures, hres)
		} else {
			out.Fatal = append(out.Fatal, fmt.Sprintf("seed %d: run wedged without a library goroutine to blame (harness trouble):\n%s", prog.Seed, text))
		}
		out.Runs++
		out.WallS = time.Since(wstart).Seconds()
		for k := range out.Shapes {
			out.ShapeList = append(out.ShapeList, k)
		}
		b, _ := json.Marshal(out)
		if *flagOut != "" {
			os.WriteFile(*flagOut, b, 0o644)
		}
	}
	if *flagHashes {
		out.Hashes = map[string]string{}
	}
	start := time.Now()
	ntShapes := map[string]bool{}
	if f, ok := specialWorkers[*flagProfile]; ok {
		f(t, out)
		*flagRuns = 0
	}
	if cap, ok := profileRunCap[*flagProfile]; ok && *flagRuns > cap {
		*flagRuns = cap
	}
	for i := 0; i < *flagRuns; i++ {
		if *flagBudget > 0 && time.Since(start) > *flagBudget {
			break
		}
		seed := *flagSeed + int64(i)**flagStride
		prog := Generate(*flagProfile, seed)
		res := RunOne(t, prog, NewSearchTape(seed*1000003+7), *flagTrace)
		out.Runs++
		out.Steps += int64(res.Stats.Steps)
		out.VirtualNs += res.Stats.VirtualNs
		for k, v := range res.Stats.Faults {
			out.Faults[k] += v
		}
		for k, v := range res.Stats.Probes {
			out.Probes[k] += v
		}
		if res.Stats.HitCap {
			out.Capped++
		}
		out.Shapes[res.Shape]++
		if nontrivial(*flagProp, res) {
			out.NonTriv++
			ntShapes[res.Shape] = true
		}
		if *flagHashes {
			out.Hashes[fmt.Sprint(seed)] = res.TraceHash
		}
		if *flagTrace {
			for _, l := range res.Trace {
				fmt.Println(l)
			}
			for _, v := range res.Viols {
				fmt.Printf("VIOL %s %s\n     %s\n", v.Prop, v.Sig, v.Text)
			}
		}
		if res.Fatal != "" {
			out.Fatal = append(out.Fatal, fmt.Sprintf("seed %d: %s", seed, res.Fatal))
		}
		mine := false
		for _, v := range res.Viols {
			if *flagProp == "" || v.Prop == *flagProp {
				mine = true
			} else {
				out.Notes[v.Sig]++
			}
		}
		if mine && keepFailure(len(out.Failures), res) {
			res.HistText = res.histText()
			out.Failures = append(out.Failures, res)
		}
		if len(out.Samples) < 2 && i%97 == 3 {
			res.HistText = res.histText()
			out.Samples = append(out.Samples, res)
		}
		runtime.GC()
	}
	out.WallS = time.Since(start).Seconds()
	for k := range out.Shapes {
		out.ShapeList = append(out.ShapeList, k)
	}
	sort.Strings(out.ShapeList)
	for k := range ntShapes {
		out.NTShapes = append(out.NTShapes, k)
	}
	sort.Strings(out.NTShapes)
	b, _ := json.Marshal(out)
	if *flagOut != "" {
		if err := os.WriteFile(*flagOut, b, 0o644); err != nil {
			t.Fatal(err)
		}
	} else if !*flagTrace {
		fmt.Println(string(b))
	}
}

// keepFailure decides whether a violating run is recorded in the worker's
// output. The bound is per violation signature, not on the total: a signature
// that fires in every tenth run (a known finding, say) must not use up the
// room, or a different violation later in the same worker would go unreported.
const maxPerSig = 3

var keptPerSig = map[string]int{}

func keepFailure(have int, res *Result) bool {
	if have >= *flagMaxViol {
		return false
	}
	keep := false
	for _, v := range res.Viols {
		if (*flagProp == "" || v.Prop == *flagProp) && keptPerSig[v.Sig] < maxPerSig {
			keep = true
		}
	}
	if keep {
		for _, v := range res.Viols {
			if *flagProp == "" || v.Prop == *flagProp {
				keptPerSig[v.Sig]++
			}
		}
	}
	return keep
}

// nontrivial: the property's relevance probe fired in this run.
func nontrivial(prop string, res *Result) bool {
	if prop == "" {
		return len(res.Hist) > 0
	}
	return res.Stats.Probes[prop+"-relevant"] > 0
}

// profileRunCap bounds the number of runs of profiles that do not fill a time
// budget (real-time sub-checks).
var profileRunCap = map[string]int{"c04gc": 24}

// hangTimeout is the real time a single run may take. A run normally lasts
// milliseconds; the scheduler sees every deadlock that parks in the kernel or
// blocks durably. What it cannot see is a goroutine that spins, or blocks on
// something the bubble does not consider durable (a sync.Mutex taken without a
// schedule point, a system call): then quiescence is never reached and the run
// never ends. The watchdog runs outside the bubble on the real clock.
var hangTimeout = func() time.Duration {
	if v := os.Getenv("VERIF_HANG_S"); v != "" {
		if d, err := time.ParseDuration(v + "s"); err == nil && d > 0 {
			return d
		}
	}
	return 60 * time.Second
}()

// hangVerdict inspects all goroutine stacks of a wedged process: a goroutine
// with a library frame that is not parked in the kernel and not blocked in a
// way the bubble understands is the culprit.
func hangVerdict() (sig, text string, library bool) {
	buf := make([]byte, 4<<20)
	buf = buf[:runtime.Stack(buf, true)]
	var culprit string
	for _, g := range strings.Split(string(buf), "\n\n") {
		if !strings.Contains(g, "github.com/fullstorydev/grpchan/") {
			continue
		}
		hdr := g
		if i := strings.IndexByte(g, '\n'); i >= 0 {
			hdr = g[:i]
		}
		if strings.Contains(g, "simrt.(*Kernel).park") || strings.Contains(hdr, "(durable)") {
			continue // waiting for the scheduler, or blocked where the bubble can see it
		}
		lib := false
		for _, line := range strings.Split(g, "\n") {
			if strings.HasPrefix(line, "github.com/fullstorydev/grpchan/") && !strings.HasPrefix(line, "github.com/fullstorydev/grpchan/simrt.") {
				lib = true
				break
			}
		}
		if lib && (strings.Contains(hdr, "running") || strings.Contains(hdr, "runnable") || strings.Contains(hdr, "sync.Mutex") || strings.Contains(hdr, "sync.RWMutex") || strings.Contains(hdr, "semacquire") || strings.Contains(hdr, "sync.WaitGroup") || strings.Contains(hdr, "sync.Cond")) {
			culprit = g
			break
		}
	}
	if culprit == "" {
		return "", trunc(string(buf), 6000), false
	}
	site := leakSite(culprit)
	if len(culprit) > 2500 {
		culprit = culprit[:2500]
	}
	return "C05|hang|" + site, "the run did not finish within " + hangTimeout.String() + " of real time: a goroutine is spinning or blocked inside the library where no schedule point, channel operation or timer can release it (livelock, or a lock that is never released):\n" + culprit, true
}

// armWatchdog returns a stop function. onHang is given the verdict; it must
// not return (the bubble is wedged).
func armWatchdog(prog *Program, tape *Tape) func() {
	t := time.AfterFunc(hangTimeout, func() {
		sig, text, lib := hangVerdict()
		if hangHandler != nil {
			hangHandler(prog, tape.Seed, tape.ForkSeed, sig, text, lib)
		} else {
			fmt.Printf("run wedged: %s\n%s\n", sig, text)
		}
		os.Exit(0)
	})
	return func() { t.Stop() }
}

// hangHandler is told about a run that never ended; the process exits afterwards.
var hangHandler func(prog *Program, tapeSeed, tapeFork int64, sig, text string, library bool)

// specialWorkers are profiles that are not "generate a program, run it":
// complete enumerations and the like. They fill the WorkerOut themselves.
var specialWorkers = map[string]func(t *testing.T, out *WorkerOut){}

// ReplayFile is the on-disk form of a violation.
type ReplayFile struct {
	Property  string     `json:"property"`
	Signature string     `json:"signature"`
	Text      string     `json:"violation"`
	Seed      int64      `json:"seed"`
	Program   *Program   `json:"program"`
	Tape      []int      `json:"tape"`
	TapeSeed  int64      `json:"tape_seed,omitempty"` // if set (and tape empty): the schedule is the seeded search tape itself (used when a run never finished)
	TapeFork  int64      `json:"tape_fork,omitempty"` // with tape_seed: the seed the choices were re-seeded with when the first planned fault fired
	Trace     []string   `json:"trace,omitempty"`
	History   []string   `json:"history,omitempty"`
	TreeHash  string     `json:"tree_hash,omitempty"`
}

func replayMain(t *testing.T) {
	b, err := os.ReadFile(*flagReplay)
	if err != nil {
		t.Fatal(err)
	}
	var rf ReplayFile
	if err := json.Unmarshal(b, &rf); err != nil {
		t.Fatal(err)
	}
	if *flagTapes > 0 {
		seen := map[string]int{}
		first := map[string]int{}
		outcomes := map[string]int{}
		defer func() {
			if len(outcomes) > 0 {
				fmt.Printf("outcomes=%v\n", outcomes)
			}
		}()
		for i := 0; i < *flagTapes; i++ {
			b2, _ := json.Marshal(rf.Program)
			var p2 Program
			json.Unmarshal(b2, &p2)
			p2.Cfg.Policy = i % 3
			p2.Seed = int64(i + 1)
			r := RunOne(t, &p2, NewSearchTape(int64(i)*7919+1), false)
			if os.Getenv("SIM_TAPES_OUTCOMES") != "" {
				for _, l := range r.histText() {
					if strings.Contains(l, " c0 invoke") || (strings.Contains(l, " c0 recv") && strings.Contains(l, "-> status")) {
						if k := strings.Index(l, "->"); k >= 0 {
							outcomes[l[k:]]++
							if want := os.Getenv("SIM_TAPES_SHOW"); want != "" && strings.Contains(l[k:], want) && outcomes[l[k:]] <= 2 {
								fmt.Printf("--- tape %d\n%s\n", i, strings.Join(r.histText(), "\n"))
								for _, ev := range r.Hist {
									if ev.Op == "invoke" {
										b, _ := json.Marshal(ev)
										fmt.Printf("%s\n", b)
									}
								}
								fmt.Printf("viols=%v\n", r.Viols)
							}
						}
					}
				}
			}
			for _, v := range r.Viols {
				if seen[v.Sig] == 0 {
					first[v.Sig] = i
					fmt.Printf("tape %d: VIOL %s %s\n     %s\n", i, v.Prop, v.Sig, v.Text)
				}
				seen[v.Sig]++
			}
			if r.Fatal != "" {
				fmt.Println("FATAL", r.Fatal)
			}
			runtime.GC()
		}
		fmt.Printf("tapes=%d signatures=%v\n", *flagTapes, seen)
		return
	}
	tape := NewReplayTape(rf.Tape)
	if rf.TapeSeed != 0 && len(rf.Tape) == 0 {
		tape = NewSearchTape(rf.TapeSeed)
		tape.ForkSeed = rf.TapeFork
	}
	hangHandler = func(_ *Program, _, _ int64, sig, text string, library bool) {
		fmt.Printf("VIOL C05 %s\n     %s\n", sig, text)
		if library && sig == rf.Signature {
			fmt.Printf("REPRODUCED property=%s signature=%s\n", rf.Property, rf.Signature)
		} else {
			fmt.Printf("NOT-REPRODUCED property=%s signature=%s (the run wedged: %s)\n", rf.Property, rf.Signature, sig)
		}
		os.Stdout.Sync()
	}
	res := RunOne(t, rf.Program, tape, true)
	res.HistText = res.histText()
	if *flagTrace {
		for _, l := range res.Trace {
			fmt.Println(l)
		}
	}
	repro := false
	for _, v := range res.Viols {
		fmt.Printf("VIOL %s %s\n     %s\n", v.Prop, v.Sig, v.Text)
		if v.Sig == rf.Signature {
			repro = true
		}
	}
	if res.Fatal != "" {
		fmt.Println("FATAL", res.Fatal)
	}
	if repro {
		fmt.Printf("REPRODUCED property=%s signature=%s\n", rf.Property, rf.Signature)
	} else {
		fmt.Printf("NOT-REPRODUCED property=%s signature=%s\n", rf.Property, rf.Signature)
	}
	out, _ := json.Marshal(res)
	if *flagOut != "" {
		os.WriteFile(*flagOut, out, 0o644)
	}
}
