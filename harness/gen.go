package sim

import (
	"fmt"
	"strings"
	"math/rand"
)

// knobs steer the program generator; each property profile sets its own.
type knobs struct {
	transports  []string
	kinds       []int
	maxRPC      int
	pErr        float64 // handler returns a non-OK status
	pPlainErr   float64 // ... as a plain Go error / context error / io.EOF
	pDeviate    float64 // adversarial script deviation
	pCancel     float64
	pDeadline   float64
	pCut        float64
	pAdvance    float64
	pMutate     float64
	pMD         float64
	pSplit      float64 // sender and receiver as two client goroutines
	pBig        float64
	pSleep      float64
	pWaitCtx    float64
	pHdrCalls   float64
	pExtraResp  float64 // single-response methods: 0 or 2+ responses
	pUnenc      float64 // unencodable message
	pJunkDst    float64
	pClosure    float64 // cancel followed by the frozen-clock promptness check
	pStopOnErr  float64
	pCtxVals    float64
	pCreds      float64
	pTInt       float64
	pCloseRace  float64
	pDyn        float64 // in-process: a side uses dynamic messages
	pMismatch   float64 // single-response calls: the caller receives into another message type
	pStub       float64 // server-stream calls made the way generated stubs make them
	pReject     float64 // server-stream calls turned down before the request is read
	pPingPong   float64 // in-process bidi calls in lockstep
	pHSplit     float64 // in-process bidi handlers with a sender goroutine of their own
	pCause      float64 // caller contexts that end with a cause
	pOuterBlank float64 // metadata values with blanks at their ends
	maxMsgs     int
	cloners     []int
	allMsgKinds bool
}

func defaultKnobs() knobs {
	return knobs{
		transports: []string{TInproc, THTTP},
		kinds:      []int{KUnary, KClientStream, KServerStream, KBidi},
		maxRPC:     3, pErr: 0.3, pPlainErr: 0.15, pDeviate: 0.2, pCancel: 0.2, pDeadline: 0.1, pCut: 0, pAdvance: 0.05,
		pMutate: 0.1, pMD: 0.4, pSplit: 0.15, pBig: 0.03, pSleep: 0.1, pWaitCtx: 0.05, pHdrCalls: 0.3, pExtraResp: 0.05, pUnenc: 0.0,
		pJunkDst: 0.2, pDyn: 0.05, pClosure: 0.3, pStopOnErr: 0.5, pCtxVals: 0.2, pCreds: 0.1, pTInt: 0.2, maxMsgs: 4, cloners: []int{0, 0, 1, 2, 3, 4},
		pStub: 0.5, pCause: 0.3, pOuterBlank: 0, pReject: 0.08, pPingPong: 0.15, pHSplit: 0.1,
	}
}

type gen struct {
	rng *rand.Rand
	k   knobs
	tag uint32
	ns  int64
	bigPending bool // some call has a peer that answers or leaves while a large request is still being sent
}

func newRand(seed int64) *rand.Rand { return rand.New(rand.NewSource(seed)) }

func (g *gen) p(x float64) bool { return g.rng.Float64() < x }
func (g *gen) pick(n int) int   { return g.rng.Intn(n) }

// uniq returns a small strictly increasing nanosecond offset so that no two
// generated durations coincide.
func (g *gen) uniq() int64 {
	g.ns += int64(1 + g.rng.Intn(5))
	return g.ns
}

func (g *gen) dur() int64 {
	scales := []int64{50e3, 500e3, 5e6, 50e6, 500e6, 5e9}
	sc := scales[g.pick(len(scales))]
	return sc + g.rng.Int63n(sc*9) + g.uniq()
}

func (g *gen) msg() *MsgSpec {
	g.tag++
	m := &MsgSpec{Tag: g.tag}
	switch x := g.rng.Float64(); {
	case x < 0.08:
		m.Kind = 1 // empty
	case x < 0.25:
		m.Kind = 2
	case x < 0.35:
		m.Kind = 3
	case x < 0.42:
		m.Kind = 5
	}
	if m.Kind != 1 {
		switch x := g.rng.Float64(); {
		case x < g.k.pBig/3:
			m.Size = 1<<20 + g.pick(3<<20)
		case x < g.k.pBig:
			m.Size = 60000 + g.pick(10000)
		case x < g.k.pBig+0.05:
			// medium: beyond net/http's 4 KiB write buffer, around its 32 KiB
			// body-copy chunk, up to a few hundred KiB
			m.Size = []int{4000, 9000, 30000, 33000, 70000, 140000, 270000}[g.pick(7)] + g.pick(3000)
		case x < 0.3:
			m.Size = g.pick(8)
		default:
			m.Size = 4 + g.pick(300)
		}
	}
	if g.p(g.k.pUnenc) {
		m.Kind = 4
		m.Size = 4
	}
	return m
}

var mdKeys = []string{"k1", "k2", "x-app", "dup", "data-bin", "other-bin", "a.b_c-d", "authorization", "zz9", "bin"}

func (g *gen) md(max int) []KV {
	n := g.pick(max + 1)
	var out []KV
	for i := 0; i < n; i++ {
		k := mdKeys[g.pick(len(mdKeys))]
		var v []byte
		if len(k) > 4 && k[len(k)-4:] == "-bin" {
			l := g.pick(12)
			special := []byte{0x00, 0x0A, 0xFF, 0xFB, 0xEF, 0x3E, 0x3F, 0x2B, 0x2F}
			for j := 0; j < l; j++ {
				if g.p(0.5) {
					v = append(v, special[g.pick(len(special))])
				} else {
					v = append(v, byte(g.pick(256)))
				}
			}
		} else {
			l := g.pick(10)
			for j := 0; j < l; j++ {
				c := byte(0x20 + g.pick(0x5f))
				if (j == 0 || j == l-1) && c == ' ' {
					c = 'x'
				}
				v = append(v, c)
			}
			if g.p(g.k.pOuterBlank) {
				// blanks at the ends of a value: legal in gRPC metadata, trimmed by
				// HTTP header rules (a known limit of the HTTP wire format)
				switch g.pick(3) {
				case 0:
					v = append([]byte(" "), v...)
				case 1:
					v = append(v, ' ')
				default:
					v = append(append([]byte("  "), v...), ' ')
				}
			}
		}
		out = append(out, KV{K: k, V: RawStr(v)})
	}
	return out
}

var allCodes = []int32{1, 2, 3, 4, 5, 6, 7, 8, 9, 10, 11, 12, 13, 14, 15, 16, 17, 20, 99, 2147483647, -1}

func (g *gen) status() *StatusSpec {
	st := &StatusSpec{}
	if g.p(g.k.pPlainErr / (g.k.pErr + 1e-9)) {
		st.Plain = []int{1, 2, 3, 4, 7, 8}[g.pick(6)]
		st.Msg = RawStr(statusMsgs[g.pick(len(statusMsgs))])
		return st
	}
	st.Code = allCodes[g.pick(len(allCodes))]
	st.Msg = RawStr(statusMsgs[g.pick(len(statusMsgs))])
	if g.p(0.3) {
		st.Details = 1 + g.pick(3)
	}
	return st
}

func (g *gen) maybeStatus() *StatusSpec {
	if g.p(g.k.pErr) {
		return g.status()
	}
	return nil
}

// hdrOps returns header/trailer setting operations for a handler.
func (g *gen) hdrOp() Op {
	op := Op{K: "settlr", MD: g.md(3)}
	switch g.pick(3) {
	case 0:
		op.K = "sethdr"
	case 1:
		op.K = "sendhdr"
	}
	if g.p(0.25) {
		op.N = 1 // handler re-uses (overwrites) the metadata object afterwards
	}
	return op
}

func (g *gen) rpc(id int) *RPC {
	k := g.k
	r := &RPC{ID: id, Transport: k.transports[g.pick(len(k.transports))], Kind: k.kinds[g.pick(len(k.kinds))], Svc: "sim.S", Meth: fmt.Sprintf("M%d", id)}
	r.Call = "/" + r.Svc + "/" + r.Meth
	http := r.Transport == THTTP
	if g.p(k.pMD) {
		r.OutMD = g.md(4)
	}
	if g.p(0.5) {
		r.NHdrOpts = 1 + g.pick(2)
	}
	if g.p(0.5) {
		r.NTlrOpts = 1 + g.pick(2)
	}
	if g.p(0.2) {
		r.PeerOpt = true
	}
	if g.p(k.pCtxVals) {
		r.CtxVals = 1 + g.pick(4)
	}
	if g.p(k.pCreds) {
		r.Creds = &CredSpec{MD: g.md(2), Canon: g.p(0.3)}
		if g.p(0.35) {
			r.Creds.DelayN = g.dur() // the lookup takes (virtual) time
		}
	}
	r.StopOnErr = g.p(k.pStopOnErr)
	if r.Transport == TInproc {
		r.DynC = g.p(k.pDyn)
		r.DynH = g.p(k.pDyn)
	}
	nReq := g.pick(k.maxMsgs + 1)
	nResp := g.pick(k.maxMsgs + 1)
	forceSplit := false
	var c, h []Op
	hdrs := func() {
		if g.p(k.pMD) {
			n := 1 + g.pick(2)
			for i := 0; i < n; i++ {
				h = append(h, g.hdrOp())
			}
		}
	}
	sleepMaybe := func() {
		if g.p(k.pSleep) {
			h = append(h, Op{K: "sleep", D: g.dur()})
		}
	}
	recvOp := func() Op {
		op := Op{K: "recv"}
		if g.p(k.pJunkDst) {
			op.N = 1
		}
		return op
	}
	switch r.Kind {
	case KUnary:
		inv := Op{K: "invoke", Msg: g.msg()}
		if g.p(k.pJunkDst) {
			inv.N = 1
		}
		if g.p(k.pMismatch) {
			inv.N = 2
			r.DynC = false
		}
		c = append(c, inv)
		if g.p(0.15) {
			hdrs()
		}
		sleepMaybe()
		h = append(h, Op{K: "decode"})
		hdrs()
		sleepMaybe()
		if g.p(k.pWaitCtx) {
			h = append(h, Op{K: "waitctx"})
		}
		ret := Op{K: "return", St: g.maybeStatus(), Msg: g.msg()}
		if ret.St != nil && g.p(0.5) {
			ret.Msg = nil
		}
		if g.p(k.pExtraResp) {
			ret.N = 1 + g.pick(2) // nil response
		}
		if ret.St != nil && ret.St.Plain == 0 && g.p(0.2) {
			ret.St.Plain = 6
			h = append(h, Op{K: "waitctx"})
		}
		h = append(h, ret)
	case KServerStream:
		c = append(c, Op{K: "send", Msg: g.msg()}, Op{K: "closesend"})
		r.Stub = g.p(k.pStub)
		h = append(h, Op{K: "recv"})
		hdrs()
		for i := 0; i < nResp; i++ {
			sleepMaybe()
			h = append(h, Op{K: "send", Msg: g.msg()})
			if g.p(0.1) {
				h = append(h, g.hdrOp())
			}
		}
		hdrs()
		if g.p(k.pWaitCtx) {
			h = append(h, Op{K: "waitctx"})
		}
		h = append(h, Op{K: "return", St: g.maybeStatus()})
		if g.p(k.pReject) {
			// the call is turned down before the request is read (what an
			// authorising interceptor does); over HTTP a large request is then
			// still on its way when the reply is complete
			h = []Op{{K: "return", St: g.status()}}
			if http && g.p(0.6) {
				c[0].Msg.Kind = 0
				c[0].Msg.Size = 280000 + g.pick(900000)
				g.bigPending = true
			}
		}
		if g.p(0.7) {
			c = append(c, Op{K: "recvall"})
		} else {
			for i := 0; i < nResp+1; i++ {
				c = append(c, recvOp())
			}
		}
	case KClientStream:
		for i := 0; i < nReq; i++ {
			c = append(c, Op{K: "send", Msg: g.msg()})
		}
		ro := recvOp()
		if g.p(k.pMismatch) {
			ro.N = 2
			r.DynC = false
		}
		c = append(c, Op{K: "closesend"}, ro)
		h = append(h, Op{K: "recvall"})
		hdrs()
		sleepMaybe()
		n := 1
		if g.p(k.pExtraResp) {
			n = []int{0, 2, 3}[g.pick(3)]
		}
		st := g.maybeStatus()
		if st != nil && g.p(0.6) {
			n = 0
		}
		for i := 0; i < n; i++ {
			h = append(h, Op{K: "send", Msg: g.msg()})
		}
		hdrs()
		h = append(h, Op{K: "return", St: st})
	case KBidi:
		if http {
			for i := 0; i < nReq; i++ {
				c = append(c, Op{K: "send", Msg: g.msg()})
			}
			c = append(c, Op{K: "closesend"}, Op{K: "recvall"})
			h = append(h, Op{K: "recvall"})
			hdrs()
			for i := 0; i < nResp; i++ {
				h = append(h, Op{K: "send", Msg: g.msg()})
			}
			hdrs()
			h = append(h, Op{K: "return", St: g.maybeStatus()})
		} else if g.p(k.pPingPong) {
			// request/response in lockstep: each side waits for the other
			if g.p(0.3) {
				hdrs()
			}
			n := 1 + g.pick(k.maxMsgs)
			for i := 0; i < n; i++ {
				c = append(c, Op{K: "send", Msg: g.msg()}, recvOp())
				h = append(h, Op{K: "recv"}, Op{K: "send", Msg: g.msg()})
			}
			c = append(c, Op{K: "closesend"}, recvOp())
			h = append(h, Op{K: "recv"})
			if g.p(0.3) {
				hdrs()
			}
			h = append(h, Op{K: "return", St: g.maybeStatus()})
		} else {
			// full duplex: the two directions are independent
			var cs, cr []Op
			for i := 0; i < nReq; i++ {
				cs = append(cs, Op{K: "send", Msg: g.msg()})
			}
			cs = append(cs, Op{K: "closesend"})
			if g.p(0.7) {
				cr = append(cr, Op{K: "recvall"})
			} else {
				for i := 0; i < nResp+1; i++ {
					cr = append(cr, recvOp())
				}
			}
			c = g.interleave(cs, cr)
			if g.p(k.pSplit * 3) {
				forceSplit = true
			}
			var hs, hr []Op
			if g.p(0.7) {
				hr = append(hr, Op{K: "recvall"})
			} else {
				for i := 0; i < nReq+1; i++ {
					hr = append(hr, Op{K: "recv"})
				}
			}
			for i := 0; i < nResp; i++ {
				hs = append(hs, Op{K: "send", Msg: g.msg()})
			}
			hdrs()
			h = append(h, g.interleave(hr, hs)...)
			hdrs()
			h = append(h, Op{K: "return", St: g.maybeStatus()})
		}
	}
	// accessor calls on the client
	if r.Kind != KUnary && g.p(k.pHdrCalls) {
		n := 1 + g.pick(2)
		for i := 0; i < n; i++ {
			op := Op{K: "header"}
			if g.p(0.4) {
				op.K = "trailer"
			}
			// over HTTP Header() blocks until the response starts, which (half
			// duplex) needs the request to be finished first: only after closesend
			lo := 0
			if http {
				for j, o := range c {
					if o.K == "closesend" {
						lo = j + 1
					}
				}
			}
			pos := lo + g.pick(len(c)-lo+1)
			c = append(c[:pos], append([]Op{op}, c[pos:]...)...)
		}
	}
	if r.Kind != KUnary && g.p(0.3) {
		c = append(c, Op{K: "trailer"})
	}
	// adversarial deviations
	if g.p(k.pDeviate) {
		switch g.pick(8) {
		case 7: // a worker the handler started uses the stream after the handler has returned
			if len(h) > 0 && h[len(h)-1].K == "return" {
				n := 1 + g.pick(2)
				var lateOps []Op
				for i := 0; i < n; i++ {
					lateOps = append(lateOps, Op{K: "late", N: g.pick(5), D: g.dur()})
				}
				if r.Kind == KUnary && g.p(0.6) {
					// at once: the worker races with the library putting the
					// reply together, and the caller looks at what it got
					for i := range lateOps {
						lateOps[i].D = 0
					}
					if r.NHdrOpts == 0 {
						r.NHdrOpts = 1
					}
					if r.NTlrOpts == 0 {
						r.NTlrOpts = 1
					}
				}
				h = append(h[:len(h)-1], append(lateOps, h[len(h)-1])...)
			}
		case 6: // the handler gives up on the requests: it reads a few and returns while the client is still sending
			if r.Kind == KClientStream || r.Kind == KBidi {
				nr := 0
				if nReq > 0 {
					nr = g.pick(nReq)
				}
				h = nil
				for i := 0; i < nr; i++ {
					h = append(h, Op{K: "recv"})
				}
				if g.p(0.5) {
					// ... after answering: it never reads again once it has written
					ns := 1
					if r.Kind == KBidi {
						ns = 1 + g.pick(2)
					}
					for i := 0; i < ns; i++ {
						h = append(h, Op{K: "send", Msg: g.msg()})
					}
				}
				h = append(h, Op{K: "return", St: g.maybeStatus()})
				if http && g.p(0.5) {
					// ... with more outstanding than a server reads on its own
					// after the handler is gone (net/http discards up to 256 KiB
					// of an unread request body)
					for i := range c {
						if c[i].K == "send" && c[i].Msg != nil && c[i].Msg.Kind != 4 {
							c[i].Msg.Size = 90000 + g.pick(250000)
						}
					}
					g.bigPending = true
					if g.p(0.4) && len(h) > 1 {
						// ... and takes its time before it returns
						h = append(h[:len(h)-1], Op{K: "sleep", D: g.dur()}, h[len(h)-1])
					}
				}
			}
		case 0: // operations after completion
			c = append(c, recvOp(), Op{K: "send", Msg: g.msg()}, Op{K: "closesend"}, Op{K: "header"}, Op{K: "trailer"})
		case 1: // handler returns early
			if len(h) > 2 {
				cut := 1 + g.pick(len(h)-1)
				if g.p(0.3) {
					cut = 0 // before it has read anything (an interceptor turning the call down)
				}
				h = append(append([]Op{}, h[:cut]...), Op{K: "return", St: g.maybeStatus()})
			}

		case 2: // client never closes its side
			if !http {
				var c2 []Op
				for _, o := range c {
					if o.K != "closesend" {
						c2 = append(c2, o)
					}
				}
				c = c2
			}
		case 3: // double close
			c = append(c, Op{K: "closesend"})
		case 4: // handler keeps operating after an error
			r.StopOnErr = false
			h = append(h[:len(h)-1], Op{K: "send", Msg: g.msg()}, Op{K: "recv"}, h[len(h)-1])
			if http && (r.Kind == KClientStream || r.Kind == KBidi) {
				// keep half duplex: nothing after the first send may read
				h = h[:len(h)-2]
				h = append(h, Op{K: "return", St: g.maybeStatus()})
			}
		case 5: // client stops early
			if len(c) > 2 {
				c = c[:1+g.pick(len(c)-1)]
			}
		}
	}
	if r.Kind != KUnary && len(r.Client2) == 0 && (forceSplit || g.p(k.pSplit)) {
		// sender / receiver split of whatever the script is: all sending
		// operations in one goroutine, everything else in the other (gRPC
		// allows one sender and one receiver per stream, not more)
		var a, b []Op
		for _, o := range c {
			if o.K == "send" || o.K == "closesend" {
				a = append(a, o)
			} else {
				b = append(b, o)
			}
		}
		if len(a) > 0 && len(b) > 0 && !http && g.p(0.3) {
			// the sender, too, may ask for the headers (before its first send, say)
			pos := g.pick(len(a))
			a = append(a[:pos], append([]Op{{K: "header"}}, a[pos:]...)...)
		}
		if len(a) > 0 && len(b) > 0 {
			if g.p(k.pCloseRace) {
				// CloseSend issued by the other goroutine, racing the sends
				var a2 []Op
				moved := false
				for _, o := range a {
					if o.K == "closesend" && !moved {
						moved = true
						pos := g.pick(len(b) + 1)
						if http {
							// half duplex: the server answers only after the
							// request has ended, so the goroutine that closes
							// must do so before it waits for anything
							first := len(b)
							for j, bo := range b {
								if bo.K == "recv" || bo.K == "recvall" || bo.K == "header" {
									first = j
									break
								}
							}
							pos = g.pick(first + 1)
						}
						b = append(b[:pos], append([]Op{o}, b[pos:]...)...)
						continue
					}
					a2 = append(a2, o)
				}
				if len(a2) > 0 {
					a = a2
				}
			}
			c, r.Client2 = a, b
		}
	}
	if g.p(k.pMutate) && r.Transport == TInproc {
		// mutate something handed over earlier, at some later point
		c = append(c, Op{K: "mutate", Ref: "s0"})
		if len(h) > 1 {
			pos := 1 + g.pick(len(h)-1)
			h = append(h[:pos], append([]Op{{K: "mutate", Ref: "r0"}}, h[pos:]...)...)
		}
	}
	if g.p(k.pMutate) && r.Transport == TInproc && r.Kind != KUnary {
		// the handler re-uses a response object right after (or some time
		// after) its send returned; the client scribbles over what it received
		ns := 0
		for i := 0; i < len(h); i++ {
			if h[i].K == "send" {
				if g.p(0.5) {
					pos := i + 1
					if g.p(0.4) {
						pos = i + 1 + g.pick(len(h)-i-1)
					}
					if pos >= len(h) {
						pos = len(h) - 1
					}
					if pos <= i {
						pos = i + 1
					}
					h = append(h[:pos], append([]Op{{K: "mutate", Ref: fmt.Sprintf("s%d", ns)}}, h[pos:]...)...)
				}
				ns++
			}
		}
		if g.p(0.5) {
			c = append(c, Op{K: "mutate", Ref: "r0"})
		}
	}
	for i := range c {
		if c[i].K == "recvall" && g.p(k.pJunkDst) {
			c[i].Ref = "junk"
		}
	}
	for i := range h {
		switch h[i].K {
		case "recv", "decode":
			if g.p(k.pJunkDst) {
				h[i].N = 1
			}
		case "recvall":
			if g.p(k.pJunkDst) {
				h[i].Ref = "junk"
			}
		}
	}
	if k.pUnenc > 0 {
		// a header-setting call right after a response that could not be
		// encoded: it succeeds if that was the first thing the handler sent
		// and fails if headers had gone out before
		for i := range h {
			if h[i].K == "send" && h[i].Msg != nil && h[i].Msg.Kind == 4 {
				if g.p(0.5) {
					op := Op{K: []string{"sethdr", "sendhdr"}[g.pick(2)], MD: append(g.md(1), KV{K: "k1", V: "after-unenc"})}
					h = append(h[:i+1], append([]Op{op}, h[i+1:]...)...)
				}
				break
			}
		}
	}
	if r.Kind == KBidi && !http && g.p(k.pHSplit) {
		// full-duplex handler with a sender goroutine of its own: all sends move
		// there; the handler itself receives and, between receives, sets metadata
		var main, snd []Op
		for _, o := range h {
			if o.K == "send" {
				snd = append(snd, o)
				continue
			}
			if o.K == "mutate" && strings.HasPrefix(o.Ref, "s") {
				continue // "after send k" has no meaning in the other goroutine
			}
			main = append(main, o)
			if (o.K == "recv" || o.K == "recvall") && g.p(0.6) {
				extra := Op{K: "settlr", MD: g.md(2)}
				if g.p(0.3) {
					extra.K = "sethdr"
				}
				main = append(main, extra)
			}
		}
		if len(snd) > 0 {
			h, r.Handler2 = main, snd
		}
	}
	r.Client, r.Handler = c, h
	if g.p(k.pDeadline) {
		r.DeadlineN = g.dur()
	}
	r.Cause = g.p(k.pCause)
	if http && (r.Kind == KClientStream || r.Kind == KBidi) && len(r.Client2) == 0 && g.p(k.pWaitCtx*0.6) {
		// a handler that does not read its requests but waits for its context:
		// over HTTP only the propagated deadline can end it
		r.Handler = []Op{{K: "waitctx"}, {K: "return", St: &StatusSpec{Plain: 6}}}
		r.DeadlineN = g.dur()
	}
	return r
}

func (g *gen) interleave(a, b []Op) []Op {
	var out []Op
	for len(a) > 0 || len(b) > 0 {
		if len(b) == 0 || (len(a) > 0 && g.p(0.5)) {
			out = append(out, a[0])
			a = a[1:]
		} else {
			out = append(out, b[0])
			b = b[1:]
		}
	}
	return out
}

func (g *gen) estLen(r *RPC) int {
	n := 10 + 7*(len(r.Client)+len(r.Client2)+len(r.Handler))
	for _, o := range append(append([]Op{}, r.Client...), r.Handler...) {
		if o.K == "recvall" {
			n += 20
		}
	}
	if r.Transport == THTTP {
		n = n * 3 / 2
		// a large message crosses the simulated network in many deliveries:
		// faults are to land inside such transfers as well
		for _, o := range append(append([]Op{}, r.Client...), r.Handler...) {
			if o.Msg != nil && o.Msg.Size > 8000 {
				n += o.Msg.Size / 3000
			}
		}
	}
	return n
}

func (g *gen) program(profile string, seed int64) *Program {
	p := &Program{Profile: profile, Seed: seed}
	k := g.k
	p.Cfg.Policy = g.pick(3)
	p.Cfg.Frag = []int{0, 0, 1, 2, 3}[g.pick(5)]
	p.Cfg.NetEager = g.p(0.3)
	if g.p(0.15) {
		p.Cfg.SendBuf = []int{1, 7, 64, 4096, 4096, 32768}[g.pick(6)]
	}
	p.Cfg.Cloner = k.cloners[g.pick(len(k.cloners))]
	// HTTP server flavour: Server type or HandleServices on a mux, base path,
	// error renderer
	if g.p(0.25) {
		p.Cfg.UseHandle = true
	}
	if g.p(0.3) {
		p.Cfg.BasePath = []string{"/foo/", "/a/b/", "/foo", "/v1~x/"}[g.pick(4)]
	}
	if g.p(0.25) {
		p.Cfg.Renderer = 1 + g.pick(2)
	}
	if g.p(k.pTInt) {
		p.Cfg.TUnaryInt = g.p(0.7)
		p.Cfg.TStreamInt = g.p(0.7)
	}
	n := 1
	for n < k.maxRPC && g.p(0.45) {
		n++
	}
	for i := 0; i < n; i++ {
		r := g.rpc(i)
		if i > 0 && g.p(0.35) {
			// a later call on the same channel: starts when an earlier one is over
			r.After = 1 + g.pick(i)
		}
		p.RPCs = append(p.RPCs, r)
	}
	if g.bigPending && g.p(0.6) {
		// a peer that answers while much of the request is still to come only
		// matters when the sender cannot hand everything to the network at once
		p.Cfg.SendBuf = []int{4096, 32768}[g.pick(2)]
	}
	for _, r := range p.RPCs {
		// a message that cannot be encoded cannot be copied between a generated
		// and a dynamic representation either (the copy goes through the wire
		// form): such calls use generated messages on both sides
		for _, ops := range [][]Op{r.Client, r.Client2, r.Handler, r.Handler2} {
			for _, o := range ops {
				if o.Msg != nil && o.Msg.Kind == 4 {
					r.DynC, r.DynH = false, false
				}
			}
		}
	}
	if p.Cfg.Cloner >= 2 {
		// the codec / clone-func / copy-func adapters copy between identical
		// Go types only: with them both sides use the same representation
		for _, r := range p.RPCs {
			if r.DynC != r.DynH {
				r.DynC, r.DynH = false, false
			}
		}
	}
	if p.Cfg.SendBuf > 0 && p.Cfg.SendBuf < 4096 {
		// a tiny send buffer moves a message in buffer-sized pieces: keep the
		// number of scheduler steps per message bounded
		for _, r := range p.RPCs {
			for _, ops := range [][]Op{r.Client, r.Client2, r.Handler, r.Handler2} {
				for i := range ops {
					if ops[i].Msg != nil && ops[i].Msg.Size > 300*p.Cfg.SendBuf {
						ops[i].Msg.Size = 300 * p.Cfg.SendBuf
					}
				}
			}
		}
	}
	total := 0
	for _, r := range p.RPCs {
		total += g.estLen(r)
	}
	for _, r := range p.RPCs {
		if g.p(k.pCancel) {
			f := Fault{Kind: "cancel", RPC: r.ID, Step: g.pick(total + 5)}
			if g.p(k.pClosure) {
				f.N = 1
			}
			p.Faults = append(p.Faults, f)
		}
		if r.DeadlineN > 0 && g.p(0.7) {
			p.Faults = append(p.Faults, Fault{Kind: "deadline", RPC: r.ID, Step: g.pick(total + 5)})
		}
	}
	if g.p(k.pAdvance) {
		p.Faults = append(p.Faults, Fault{Kind: "advance", Step: g.pick(total + 5), D: g.dur()})
	}
	if g.p(k.pCut) && p.uses(THTTP) {
		kind := "cut-clean"
		if g.p(0.5) {
			kind = "cut-reset"
		}
		p.Faults = append(p.Faults, Fault{Kind: kind, Step: g.pick(total + 5), N: g.pick(n)})
	}
	return p
}

// Generate builds the program for (profile, seed).
func Generate(profile string, seed int64) *Program {
	g := &gen{rng: rand.New(rand.NewSource(seed ^ 0x5DEECE66D)), k: profileKnobs(profile)}
	if *flagTier == "thorough" && seed%2 != 0 {
		// the thorough tier spends half of its runs on wider bounds: up to 5
		// concurrent calls, up to 8-10 messages per direction, more large payloads
		g.k.maxRPC += 2
		g.k.maxMsgs += 4
		g.k.pBig *= 2
	}
	if f, ok := specialGenerators[profile]; ok {
		return f(g, seed)
	}
	p := g.program(profile, seed)
	if *flagTier == "thorough" && seed%2 != 0 && p.Cfg.MaxSteps == 0 {
		p.Cfg.MaxSteps = 15000
	}
	return p
}

var specialGenerators = map[string]func(g *gen, seed int64) *Program{}
