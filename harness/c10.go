package sim

import (
	"context"
	"fmt"
	"time"

	"github.com/fullstorydev/grpchan/grpchantesting"
	"google.golang.org/grpc/metadata"
	"google.golang.org/protobuf/proto"
)

// C10: what an in-process handler's context exposes. Besides the clauses
// evaluated on every in-process handler entry (oracleC10), this profile adds
//   - the caller re-using (overwriting) its outgoing metadata object while the
//     call is in flight, with the handler reading its incoming metadata later;
//   - nested calls: an in-process call made from inside another handler
//     (in-process, HTTP or grpc-go), whose context carries the enclosing
//     call's incoming metadata, peer and server transport stream.

func init() {
	specialGenerators["c10"] = genC10
	extraOracles = append(extraOracles, oracleC10extra)
}

func genC10(g *gen, seed int64) *Program {
	g.k = profileKnobs("c10")
	p := &Program{Profile: "c10", Seed: seed}
	p.Cfg.Policy = g.pick(3)
	p.Cfg.NetEager = g.p(0.6)
	if g.p(g.k.pTInt) {
		p.Cfg.TUnaryInt = g.p(0.7)
		p.Cfg.TStreamInt = g.p(0.7)
	}
	p.Cfg.Cloner = g.k.cloners[g.pick(len(g.k.cloners))]
	n := 1 + g.pick(2)
	for id := 0; id < n; id++ {
		r := &RPC{ID: id, Svc: "sim.S", Meth: fmt.Sprintf("M%d", id), Transport: TInproc}
		r.Call = "/" + r.Svc + "/" + r.Meth
		r.Kind = []int{KUnary, KServerStream, KClientStream, KBidi}[g.pick(4)]
		if g.p(0.85) {
			r.OutMD = g.md(4)
		}
		if g.p(0.6) {
			r.CtxVals = 1 + g.pick(5)
		}
		if g.p(0.2) {
			r.Creds = &CredSpec{MD: g.md(2)}
		}
		if g.p(0.4) {
			r.DeadlineN = 1e9 + g.dur()
		}
		switch r.Kind {
		case KUnary:
			r.Client = []Op{{K: "invoke", Msg: g.msg()}, {K: "mutmd"}}
			r.Handler = []Op{{K: "decode"}, {K: "readmd"}, {K: "return", Msg: g.msg()}}
		case KServerStream:
			r.Client = []Op{{K: "send", Msg: g.msg()}, {K: "mutmd"}, {K: "closesend"}, {K: "recvall"}}
			r.Handler = []Op{{K: "recv"}, {K: "send", Msg: g.msg()}, {K: "readmd"}, {K: "send", Msg: g.msg()}, {K: "readmd"}, {K: "return"}}
		default:
			r.Client = []Op{{K: "send", Msg: g.msg()}, {K: "mutmd"}, {K: "send", Msg: g.msg()}, {K: "closesend"}, {K: "recvall"}}
			r.Handler = []Op{{K: "recv"}, {K: "readmd"}, {K: "recv"}, {K: "readmd"}, {K: "recvall"}, {K: "readmd"}, {K: "send", Msg: g.msg()}, {K: "return"}}
		}
		if g.p(0.4) {
			// the handler scribbles over its incoming metadata at some point
			pos := 1 + g.pick(len(r.Handler)-1)
			r.Handler = append(r.Handler[:pos], append([]Op{{K: "hmutmd"}}, r.Handler[pos:]...)...)
		}
		if !g.p(0.7) {
			// without the caller's mutation
			var c []Op
			for _, o := range r.Client {
				if o.K != "mutmd" {
					c = append(c, o)
				}
			}
			r.Client = c
		}
		p.RPCs = append(p.RPCs, r)
	}
	// a nested in-process call made from inside a handler on any carrier
	if g.p(0.5) {
		outer := &RPC{ID: len(p.RPCs), Svc: "sim.S", Meth: "Outer", Kind: KUnary}
		outer.Transport = []string{TInproc, THTTP, TGRPC}[g.pick(3)]
		outer.Call = "/sim.S/Outer"
		outer.OutMD = []KV{{K: "outer-only", V: "o1"}, {K: "k1", V: "outer-k1"}}
		inner := &RPC{ID: len(p.RPCs) + 1, Svc: "sim.S", Meth: "Inner", Kind: KUnary, Transport: TInproc, Nested: true}
		inner.Call = "/sim.S/Inner"
		if g.p(0.6) {
			inner.OutMD = []KV{{K: "inner-only", V: "i1"}, {K: "k1", V: "inner-k1"}}
		}
		inner.Client = []Op{{K: "invoke", Msg: g.msg()}}
		inner.Handler = []Op{{K: "decode"}, {K: "return", Msg: g.msg()}}
		if g.p(0.5) {
			// shorter than anything the outer call carries
			inner.DeadlineN = int64(200e6) + g.dur()%int64(500e6) + g.uniq()
			if g.p(0.5) {
				// the nested handler waits for its context: the nested call's own
				// deadline (not the outer caller's, which is later or absent) ends it
				inner.Handler = []Op{{K: "decode"}, {K: "waitctx"}, {K: "return", St: &StatusSpec{Plain: 6}}}
			}
		}
		outer.Client = []Op{{K: "invoke", Msg: g.msg()}}
		outer.Handler = []Op{{K: "decode"}, {K: "nested", N: inner.ID}, {K: "return", Msg: g.msg()}}
		p.RPCs = append(p.RPCs, outer, inner)
	}
	total := 0
	for _, r := range p.RPCs {
		total += g.estLen(r)
	}
	if g.p(0.3) {
		p.Faults = append(p.Faults, Fault{Kind: "cancel", RPC: 0, Step: g.pick(total + 5), N: 1})
	}
	return p
}

// nestedCall: an in-process unary call made by a handler with the handler's
// own context as the parent.
func (s *Sim) nestedCall(outer *rpcState, innerID int, hctx context.Context) {
	if innerID < 0 || innerID >= len(s.rpcs) {
		return
	}
	rs := s.rpcs[innerID]
	r := rs.r
	conn := s.env.conn(TInproc)
	if conn == nil || rs.started {
		return
	}
	base := hctx
	if len(r.OutMD) > 0 {
		rs.outMD = kvToMD(r.OutMD)
		base = metadata.NewOutgoingContext(base, rs.outMD)
	}
	rs.baseCtx = base
	if r.DeadlineN > 0 {
		// the handler gives its nested call a deadline of its own
		rs.deadline = time.Now().Add(time.Duration(r.DeadlineN))
		rs.ctx, rs.cancel = context.WithDeadline(base, rs.deadline)
		s.addInstant(rs.deadline)
	} else {
		rs.ctx, rs.cancel = context.WithCancel(base)
	}
	rs.started = true
	rs.nestedIn = outer
	var spec *MsgSpec
	for _, op := range r.Client {
		if op.K == "invoke" {
			spec = op.Msg
		}
	}
	req := spec.Build()
	rs.sentObjs = append(rs.sentObjs, req)
	resp := &grpchantesting.Message{}
	ev := s.begin(r.ID, 'c', 0, "invoke")
	ev.Msg = spec
	err := guard(ev, func() error { return conn.Invoke(rs.ctx, r.Call, req, resp) })
	if err == nil {
		ev.GotMsg = proto.Clone(resp)
		ev.Got = digestMsg(resp)
	}
	s.end(ev, err)
	s.probe("nested-call")
}

func oracleC10extra(s *Sim) {
	for _, v := range s.views() {
		if v.r.Transport != TInproc || v.hStart == nil {
			continue
		}
		for _, ev := range v.ev {
			if ev.Op != "readmd" {
				continue
			}
			if _, leaked := ev.MD["caller-added-later"]; leaked {
				v.fail("C10", "caller-metadata-mutation-visible", "the handler's incoming metadata at seq %d shows a key the caller added to its metadata object after starting the call", ev.Seq)
				continue
			}
			if ok, why := v.incomingOK(ev.MD); !ok {
				v.fail("C10", "caller-metadata-mutation-visible", "the handler's incoming metadata read at seq %d differs from what the caller attached: %s", ev.Seq, why)
			}
		}
		if v.rs.nestedIn != nil {
			s.stats.Probes["c10-nested-handler-entered"]++
		}
		// the other direction: the handler's writes to its incoming metadata
		// never reach the caller's own metadata object
		callerMutated := false
		for _, ev := range v.ev {
			if ev.Op == "mutmd" {
				callerMutated = true
			}
		}
		for _, ev := range v.ev {
			if ev.Op != "outmd-at-end" || callerMutated {
				continue
			}
			want := kvToMD(v.r.OutMD)
			if _, leaked := ev.MD["handler-added-later"]; leaked || mdString(ev.MD) != mdString(want) {
				v.fail("C10", "handler-metadata-mutation-visible", "the caller's outgoing metadata object is %s at the end of the call, it attached %s: the handler's writes to its incoming metadata reached the caller", mdString(ev.MD), mdString(want))
			}
		}
	}
}
