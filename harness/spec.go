package sim

import (
	"context"
	"crypto/sha256"
	"encoding/hex"
	"errors"
	"fmt"
	"io"
	"encoding/json"
	"sort"
	"strconv"
	"strings"
	"time"

	"github.com/fullstorydev/grpchan/grpchantesting"
	"google.golang.org/grpc/codes"
	"google.golang.org/grpc/metadata"
	"google.golang.org/grpc/status"
	"google.golang.org/protobuf/proto"
	"google.golang.org/protobuf/types/known/anypb"
	"google.golang.org/protobuf/types/known/durationpb"
	"google.golang.org/protobuf/types/known/wrapperspb"
)

// ---------------------------------------------------------------------------
// Program: everything a run does, as plain data (JSON in replay files).

const (
	KUnary = iota
	KClientStream
	KServerStream
	KBidi
)

var kindNames = []string{"unary", "client-stream", "server-stream", "bidi"}

const (
	TInproc = "inproc"
	THTTP   = "http"
	TGRPC   = "grpc"
)

type Program struct {
	Profile string  `json:"profile"`
	Seed    int64   `json:"seed"`
	Cfg     Config  `json:"cfg"`
	RPCs    []*RPC  `json:"rpcs"`
	Faults  []Fault `json:"faults,omitempty"`
	Canned  *Canned `json:"canned,omitempty"` // C07: reply served by the canned RoundTripper
}

type Config struct {
	Policy     int    `json:"policy"`             // 0 uniform, 1 priorities with change points, 2 sticky
	Frag       int    `json:"frag"`               // 0 all in flight at once, 1 per segment, 2 random split, 3 tiny pieces
	NetEager   bool   `json:"net_eager"`          // deliver as soon as written (no network interleaving)
	SendBuf    int    `json:"sendbuf,omitempty"`  // 0 unbounded
	Cloner     int    `json:"cloner,omitempty"`   // 0 default(nil), 1 ProtoCloner, 2 CodecCloner, 3 CloneFunc, 4 CopyFunc
	TUnaryInt  bool   `json:"t_unary_int,omitempty"`
	TStreamInt bool   `json:"t_stream_int,omitempty"`
	TIntOnly   string `json:"t_int_only,omitempty"` // if set: only this carrier has the transport-level interceptors
	BasePath   string `json:"base_path,omitempty"`
	UseHandle  bool   `json:"use_handle_services,omitempty"` // HandleServices instead of Server
	TLS        bool   `json:"tls,omitempty"`
	Renderer   int    `json:"renderer,omitempty"` // 0 default, 1 custom (418), 2 silent
	Host6      bool   `json:"host6,omitempty"`    // the channel's base URL names the server by an IPv6 literal without a port
	MaxSteps   int    `json:"max_steps,omitempty"`
	MeterAlloc bool   `json:"meter_alloc,omitempty"` // measure the bytes allocated by the run (C07: unverified size prefaces)
	WireCut    *WireCut `json:"wire_cut,omitempty"` // the connection breaks after exactly this many bytes were delivered in one direction
	ProxyMode  int    `json:"proxy,omitempty"`
	Extra      []ExtraMethod `json:"extra,omitempty"`  // registered methods no RPC targets
	Decor      []LayerSpec   `json:"decor,omitempty"`  // server decoration layers, outermost first
	ClientInt  []LayerSpec   `json:"client_int,omitempty"` // client interceptor layers, outermost first
}

// WireCut is a connection loss at an exact byte offset of one direction of an
// HTTP connection: the first Offset bytes written in that direction arrive,
// then the reader sees a clean end (FIN) or a reset, everything else is lost
// and both writers get errors.
type WireCut struct {
	Dir        string `json:"dir"`  // "s2c" (reply) or "c2s" (request)
	Conn       int    `json:"conn"` // index of the connection (dial order)
	Offset     int    `json:"offset"`
	Reset      bool   `json:"reset,omitempty"`
	TrailerEnd int    `json:"trailer_end,omitempty"` // s2c: wire offset just past the last byte of the reply's final trailer frame (unary: of the body) in the uncut baseline run; 0 = unknown
	Total      int    `json:"total,omitempty"`       // bytes written in that direction in the uncut baseline run
}

type ExtraMethod struct {
	Svc  string `json:"svc"`
	Meth string `json:"meth"`
	Kind int    `json:"kind"`
}

// LayerSpec describes one interceptor layer.
type LayerSpec struct {
	Unary  bool `json:"unary"`
	Stream bool `json:"stream"`
	Via    int  `json:"via,omitempty"`  // server: 0 InterceptServer, 1 WithInterceptor
	Mode   int  `json:"mode,omitempty"` // 0 pass, 1 short-circuit with error, 2 fail after handler, 3 rewrite
	Foreign bool `json:"foreign,omitempty"` // client: the channel this layer wraps is itself wrapped by an application-defined WrappedClientConn first
}

type RPC struct {
	ID        int      `json:"id"`
	Transport string   `json:"transport"`
	Kind      int      `json:"kind"`
	Svc       string   `json:"svc"`
	Meth      string   `json:"meth"`
	Call      string   `json:"call"` // method string given to the channel
	Client    []Op     `json:"client"`
	Client2   []Op     `json:"client2,omitempty"` // second client goroutine (receiver side)
	Handler   []Op     `json:"handler"`
	Handler2  []Op     `json:"handler2,omitempty"` // a sender goroutine the handler starts (send, sleep); the handler itself receives and sets metadata, and joins it before it returns
	StopOnErr bool     `json:"stop_on_err,omitempty"` // handler returns the first error an operation gives it
	OutMD     []KV     `json:"out_md,omitempty"`
	DeadlineN int64    `json:"deadline_ns,omitempty"` // relative to RPC start; 0 = none
	NHdrOpts  int      `json:"n_hdr_opts,omitempty"`
	NTlrOpts  int      `json:"n_tlr_opts,omitempty"`
	PeerOpt   bool     `json:"peer_opt,omitempty"`
	Creds     *CredSpec `json:"creds,omitempty"`
	Creds0    *CredSpec `json:"creds0,omitempty"` // an earlier per-RPC-credentials option on the same call (the later one, Creds, is the one in effect)
	CtxVals   int      `json:"ctx_vals,omitempty"` // number of caller context values (C10)
	After     int      `json:"after,omitempty"` // 1 + id of the call whose client side must have finished before this call starts (0: starts at once)
	Expect       string `json:"expect,omitempty"`        // C12: own | none | either
	KindMismatch bool   `json:"kind_mismatch,omitempty"` // C12: registered with the other call shape
	Nested    bool     `json:"nested,omitempty"`     // C10: started from inside another handler, not by its own client actor
	RawClient bool     `json:"raw_client,omitempty"` // the client is the raw HTTP peer
	DynC      bool     `json:"dyn_client,omitempty"` // the client uses dynamic messages (what it sends and what it receives into)
	DynH      bool     `json:"dyn_handler,omitempty"` // the handler uses dynamic messages
	ReqSpec   *MsgSpec `json:"req_spec,omitempty"`   // message encoded in a raw request body
	Stub      bool     `json:"stub,omitempty"`       // server-stream call made the way generated stubs make it: an error from the initial SendMsg/CloseSend is the outcome of the call and the stream is abandoned
	Cause     bool     `json:"cause,omitempty"`      // the caller's context is cancelled / times out with a cause (context.WithCancelCause, WithDeadlineCause)
}

type CredSpec struct {
	Secure bool `json:"secure"`
	Fail   bool `json:"fail,omitempty"`
	MD     []KV `json:"md,omitempty"`
	DelayN int64 `json:"delay_ns,omitempty"` // virtual time the credential lookup takes (token refresh)
	Canon  bool  `json:"canon,omitempty"`    // the credential spells its keys like HTTP headers ("Authorization")
}

type KV struct {
	K string `json:"k"`
	V RawStr `json:"v"` // arbitrary bytes
}

// RawStr is a byte string that survives JSON exactly: it is written as its Go
// quoted form (encoding/json would replace invalid UTF-8 by U+FFFD).
type RawStr string

func (r RawStr) MarshalJSON() ([]byte, error) {
	return json.Marshal(strconv.QuoteToASCII(string(r)))
}

func (r *RawStr) UnmarshalJSON(b []byte) error {
	var q string
	if err := json.Unmarshal(b, &q); err != nil {
		return err
	}
	u, err := strconv.Unquote(q)
	if err != nil {
		return err
	}
	*r = RawStr(u)
	return nil
}

// Op kinds (client): send recv recvall closesend header trailer mutate sleep invoke
// Op kinds (handler): recv recvall send sethdr sendhdr settlr sleep waitctx mutate decode return
type Op struct {
	K   string      `json:"k"`
	Msg *MsgSpec    `json:"msg,omitempty"`
	MD  []KV        `json:"md,omitempty"`
	St  *StatusSpec `json:"st,omitempty"`
	D   int64       `json:"d,omitempty"`   // duration ns
	N   int         `json:"n,omitempty"`   // generic count / reference index
	Ref string      `json:"ref,omitempty"` // for mutate: "s<i>" i-th sent, "r<i>" i-th received
	Raw *RawReq     `json:"raw,omitempty"`
}

type MsgSpec struct {
	Tag  uint32 `json:"tag"`
	Size int    `json:"size"`
	Kind int    `json:"kind"` // 0 plain 1 empty 2 maps 3 any 4 unencodable 5 everything
}

type StatusSpec struct {
	Code    int32  `json:"code"`
	Msg     RawStr `json:"msg,omitempty"`
	Details int    `json:"details,omitempty"`
	Plain   int    `json:"plain,omitempty"` // 0 status, 1 errors.New, 2 context.Canceled, 3 context.DeadlineExceeded, 4 io.EOF, 5 OK-coded non-nil error, 6 ctx.Err() of the handler's context, 7/8 a wrapped context.Canceled / DeadlineExceeded
}

type Fault struct {
	Step int    `json:"step"`
	Kind string `json:"kind"` // cancel, deadline, advance, cut-clean, cut-reset
	RPC  int    `json:"rpc"`
	D    int64  `json:"d,omitempty"`
	N    int    `json:"n,omitempty"`
}

// ---------------------------------------------------------------------------
// Messages

func (m *MsgSpec) Build() *grpchantesting.Message {
	out := &grpchantesting.Message{}
	if m == nil || m.Kind == 1 {
		return out
	}
	if m.Size > 0 {
		p := make([]byte, m.Size)
		for i := range p {
			p[i] = byte(uint32(i)*31 + m.Tag*7 + 3)
		}
		hdr := []byte{byte(m.Tag >> 24), byte(m.Tag >> 16), byte(m.Tag >> 8), byte(m.Tag)}
		copy(p, hdr)
		out.Payload = p
	}
	out.Count = int32(m.Tag)
	switch m.Kind {
	case 2, 5:
		out.Headers = map[string][]byte{"a": {1, 2, 3}, fmt.Sprintf("k%d", m.Tag): []byte("v"), "": {}}
		out.Trailers = map[string][]byte{"t": []byte(strings.Repeat("z", int(m.Tag%7)))}
	}
	switch m.Kind {
	case 3, 5:
		a1, _ := anypb.New(wrapperspb.String(fmt.Sprintf("d%d", m.Tag)))
		a2, _ := anypb.New(durationpb.New(1234567))
		out.ErrorDetails = []*anypb.Any{a1, a2}
		out.Code = -int32(m.Tag)
		out.DelayMillis = 1 << 30
	}
	if m.Kind == 4 {
		out.Headers = map[string][]byte{"bad\xff\xfekey": {1}}
	}
	return out
}

var detMarshal = proto.MarshalOptions{Deterministic: true}

func digestMsg(m proto.Message) string {
	if m == nil {
		return "<nil>"
	}
	b, err := detMarshal.Marshal(m)
	if err != nil {
		return "unenc:" + fmt.Sprint(m.ProtoReflect().Get(m.ProtoReflect().Descriptor().Fields().ByName("count")).Int())
	}
	h := sha256.Sum256(b)
	return fmt.Sprintf("%d:%s", len(b), hex.EncodeToString(h[:5]))
}

// ---------------------------------------------------------------------------
// Metadata helpers

func kvToMD(kvs []KV) metadata.MD {
	md := metadata.MD{}
	for _, kv := range kvs {
		md[kv.K] = append(md[kv.K], string(kv.V))
	}
	return md
}

func mdString(md metadata.MD) string {
	keys := make([]string, 0, len(md))
	for k := range md {
		keys = append(keys, k)
	}
	sort.Strings(keys)
	var sb strings.Builder
	for _, k := range keys {
		fmt.Fprintf(&sb, "%s=%q;", k, md[k])
	}
	return sb.String()
}

func mdCopy(md metadata.MD) metadata.MD {
	if md == nil {
		return nil
	}
	return md.Copy()
}

// mdMerge appends b's values to a copy of a (order preserved per key).
func mdMerge(a, b metadata.MD) metadata.MD {
	out := metadata.MD{}
	for k, v := range a {
		out[k] = append(out[k], v...)
	}
	for k, v := range b {
		out[k] = append(out[k], v...)
	}
	return out
}

// mdContains reports whether have carries, for every key of want, exactly
// want's value list. Extra keys in have are ignored.
func mdContains(have, want metadata.MD) (bool, string) {
	keys := make([]string, 0, len(want))
	for k := range want {
		keys = append(keys, k)
	}
	sort.Strings(keys)
	for _, k := range keys {
		w := want[k]
		h := have[k]
		if len(w) == 0 {
			continue
		}
		if len(h) != len(w) {
			return false, fmt.Sprintf("key %q: want %q have %q", k, w, h)
		}
		for i := range w {
			if w[i] != h[i] {
				return false, fmt.Sprintf("key %q: want %q have %q", k, w, h)
			}
		}
	}
	return true, ""
}

// ---------------------------------------------------------------------------
// Errors

type ErrRec struct {
	Class   string   `json:"class"` // nil EOF status error panic
	Code    int32    `json:"code,omitempty"`
	Msg     string   `json:"msg,omitempty"`
	Details []string `json:"details,omitempty"`
	Text    string   `json:"text,omitempty"`
	Ctx     string   `json:"ctx,omitempty"` // "canceled"/"deadline" when err is (or wraps) the bare context error
}

func (e *ErrRec) String() string {
	if e == nil {
		return "-"
	}
	switch e.Class {
	case "nil", "EOF":
		return e.Class
	case "status":
		s := fmt.Sprintf("status(%s,%q", codes.Code(e.Code), e.Msg)
		if len(e.Details) > 0 {
			s += fmt.Sprintf(",%dd", len(e.Details))
		}
		return s + ")"
	case "panic":
		return "PANIC(" + e.Text + ")"
	}
	return "error(" + e.Text + ")"
}

func (e *ErrRec) IsNil() bool { return e != nil && e.Class == "nil" }
func (e *ErrRec) IsEOF() bool { return e != nil && e.Class == "EOF" }

// ViaConvert is what status.Code/status.Convert show for this outcome.
func (e *ErrRec) ViaConvert() (codes.Code, string) {
	switch e.Class {
	case "nil", "EOF":
		return codes.OK, ""
	case "status":
		return codes.Code(e.Code), e.Msg
	}
	return codes.Unknown, e.Text
}

func classify(err error) *ErrRec {
	if err == nil {
		return &ErrRec{Class: "nil"}
	}
	if err == io.EOF {
		return &ErrRec{Class: "EOF"}
	}
	r := &ErrRec{}
	if errors.Is(err, context.Canceled) {
		r.Ctx = "canceled"
	} else if errors.Is(err, context.DeadlineExceeded) {
		r.Ctx = "deadline"
	}
	if st, ok := status.FromError(err); ok {
		r.Class = "status"
		r.Code = int32(st.Code())
		r.Msg = st.Message()
		for _, d := range st.Proto().GetDetails() {
			r.Details = append(r.Details, d.TypeUrl+"|"+hex.EncodeToString(d.Value))
		}
		if r.Ctx != "" && (err == context.Canceled || err == context.DeadlineExceeded) {
			// bare context errors are not status errors
			r.Class = "error"
			r.Text = err.Error()
		}
		return r
	}
	r.Class = "error"
	r.Text = err.Error()
	return r
}

// okCodedError is a non-nil error whose status code is OK.
type okCodedError struct{ st *status.Status }

func (e okCodedError) Error() string              { return "ok-coded error: " + e.st.Message() }
func (e okCodedError) GRPCStatus() *status.Status { return e.st }

var statusMsgs = []string{
	"", "plain", "with: colon % and %41", "ünïcödé ☃", "line1\r\nline2", "  blanks  ", "bad\xffutf8\xfe", "tab\there", "ctl\x00and\x1band\x7fchars",
}

func (s *StatusSpec) detailsProto() []*anypb.Any {
	var out []*anypb.Any
	for i := 0; i < s.Details; i++ {
		var a *anypb.Any
		switch i % 3 {
		case 0:
			a, _ = anypb.New(wrapperspb.String(fmt.Sprintf("detail-%d-%d", s.Code, i)))
		case 1:
			a, _ = anypb.New(&grpchantesting.Message{Payload: []byte{0, 255, 10, 13}, Count: int32(i)})
		case 2:
			a, _ = anypb.New(durationpb.New(time.Duration(i) * time.Second))
		}
		out = append(out, a)
	}
	return out
}

// Err builds the error a handler returns for this spec.
func (s *StatusSpec) Err(ctx context.Context) error {
	if s == nil {
		return nil
	}
	switch s.Plain {
	case 1:
		return errors.New("plain error: " + string(s.Msg))
	case 2:
		return context.Canceled
	case 3:
		return context.DeadlineExceeded
	case 4:
		return io.EOF
	case 5:
		return okCodedError{status.New(codes.OK, string(s.Msg))}
	case 6:
		if ctx != nil && ctx.Err() != nil {
			return ctx.Err()
		}
		return nil
	case 7:
		return fmt.Errorf("querying backend: %w", context.Canceled)
	case 8:
		return fmt.Errorf("querying backend: %w", context.DeadlineExceeded)
	}
	if s.Code == 0 {
		return nil
	}
	st := status.New(codes.Code(uint32(s.Code)), string(s.Msg))
	if s.Details > 0 {
		p := st.Proto()
		p.Details = s.detailsProto()
		st = status.FromProto(p)
	}
	return st.Err()
}
