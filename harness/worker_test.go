package sim

import "testing"

func TestWorker(t *testing.T) { WorkerMain(t) }
