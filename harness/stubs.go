package sim

import (
	"net/http"
)

type proxyRT struct {
	s    *Sim
	next http.RoundTripper
}

func (p *proxyRT) RoundTrip(r *http.Request) (*http.Response, error) { return p.next.RoundTrip(r) }

func profileKnobs(profile string) knobs {
	k := defaultKnobs()
	switch profile {
	case "c01":
		k.pCancel, k.pDeadline, k.pAdvance, k.pCut = 0, 0, 0, 0
		k.pErr, k.pPlainErr, k.maxMsgs, k.pBig, k.pDeviate = 0.1, 0.02, 6, 0.06, 0.1
		k.pDyn = 0.12
	case "c01f":
		k.pCancel, k.pDeadline, k.pCut, k.maxMsgs = 0.35, 0.15, 0.3, 6
	case "c02":
		k.pCancel, k.pDeadline, k.pAdvance, k.pCut = 0, 0, 0, 0
		k.pErr, k.pPlainErr, k.pExtraResp = 0.75, 0.2, 0.03
		k.pMismatch = 0.06
	case "c02f":
		k.pErr, k.pPlainErr, k.pCut, k.pCancel, k.pUnenc = 0.6, 0.15, 0.5, 0.2, 0.1
		k.pMismatch = 0.06
	case "c03":
		k.pMD, k.pHdrCalls, k.pCancel, k.pCreds = 0.95, 0.7, 0.2, 0.25
		k.pOuterBlank = 0.08
		k.pUnenc = 0.02 // a first response that cannot be encoded leaves the headers unsent
	case "c04":
		k.pCancel, k.pDeadline, k.pSleep, k.pWaitCtx, k.pClosure, k.pAdvance = 0.6, 0.4, 0.3, 0.2, 0.5, 0.1
	case "c05":
		k.pDeviate, k.pSplit, k.pCancel, k.pDeadline, k.pCloseRace = 0.7, 0.5, 0.3, 0.1, 0.5
		k.pDyn, k.pExtraResp = 0.1, 0.1
		k.pCut = 0.2
		k.pHSplit = 0.25
	case "c06":
		k.transports = []string{TInproc}
		k.pMutate, k.pJunkDst, k.pCancel, k.pDeadline = 0.8, 0.5, 0.4, 0.1
		k.cloners = []int{0, 1, 2, 3, 4}
		k.pDyn = 0.3
	case "c08":
		k.kinds = []int{KUnary, KClientStream}
		k.pExtraResp, k.pCancel, k.pErr = 0.5, 0.1, 0.3
		k.pDyn = 0.2
		k.pUnenc = 0.04 // a response that cannot be encoded is no response
	case "calg", "calgf":
		// oracle calibration: the same generator on the reference transport
		// (grpc-go over simnet); every oracle must accept what it does
		k.transports = []string{TGRPC}
		k.pErr, k.pPlainErr, k.pExtraResp, k.pMD, k.pHdrCalls = 0.5, 0.2, 0.2, 0.7, 0.5
		if profile == "calg" {
			k.pCancel, k.pDeadline, k.pAdvance, k.pCut = 0, 0, 0, 0
		}
	case "c10":
		k.transports = []string{TInproc}
		k.pCtxVals, k.pMD, k.pCreds, k.pTInt, k.pDeadline = 0.9, 0.8, 0.3, 0.5, 0.4
	}
	return k
}
