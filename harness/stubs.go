package sim

import (
	"net/http"
	"reflect"

	"google.golang.org/grpc"
)

func isNilValue(v any) bool {
	if v == nil {
		return true
	}
	rv := reflect.ValueOf(v)
	return rv.Kind() == reflect.Ptr && rv.IsNil()
}

func (s *Sim) decorateRegistrar(reg grpc.ServiceRegistrar) grpc.ServiceRegistrar { return reg }
func (s *Sim) decorateDesc(d *grpc.ServiceDesc) *grpc.ServiceDesc                 { return d }
func (s *Sim) wrapClient(c grpc.ClientConnInterface) grpc.ClientConnInterface     { return c }
func (s *Sim) setupTLS(e *Env)                                                    { go e.hs.Serve(e.ln) }

type grpcCarrier struct{}

func (g *grpcCarrier) shutdown()                                         {}
func (s *Sim) setupGRPC(e *Env, register func(grpc.ServiceRegistrar))    {}

type proxyRT struct {
	s    *Sim
	next http.RoundTripper
}

func (p *proxyRT) RoundTrip(r *http.Request) (*http.Response, error) { return p.next.RoundTrip(r) }

func profileKnobs(profile string) knobs {
	k := defaultKnobs()
	return k
}
